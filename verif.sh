#!/bin/sh
# Entry point of every registered command: (re)builds the driver from source,
# offline, then runs it. Exit codes: 0 held, 1 VIOLATION, 2 infrastructure.
# Everything is relative to the directory this script lives in (so a snapshot
# of /verif runs from its own sources and writes its own evidence).
export GOFLAGS=-mod=mod GOPROXY=off GOSUMDB=off GOTOOLCHAIN=local
VERIF_DIR=$(cd "$(dirname "$0")" && pwd)
export VERIF_DIR
mkdir -p "$VERIF_DIR/bin" "$VERIF_DIR/evidence" "$VERIF_DIR/replays"
cd "$VERIF_DIR/sim/driver" || exit 2
if ! go build -o "$VERIF_DIR/bin/verif.$$" . ; then
	echo "INFRA: building the driver failed" >&2
	exit 2
fi
mv -f "$VERIF_DIR/bin/verif.$$" "$VERIF_DIR/bin/verif"
cd "$VERIF_DIR"
exec "$VERIF_DIR/bin/verif" "$@"
