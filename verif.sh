#!/bin/sh
# Entry point of every registered command: (re)builds the driver from source,
# offline, then runs it. Exit codes: 0 held, 1 VIOLATION, 2 infrastructure.
export GOFLAGS=-mod=mod GOPROXY=off GOSUMDB=off GOTOOLCHAIN=local
mkdir -p /verif/bin /verif/evidence /verif/replays
cd /verif/sim/driver || exit 2
if ! go build -o /verif/bin/verif.$$ . ; then
	echo "INFRA: building the driver failed" >&2
	exit 2
fi
mv -f /verif/bin/verif.$$ /verif/bin/verif
cd /verif
exec /verif/bin/verif "$@"
