package main

import (
	"encoding/json"
	"fmt"
	"os"
	"path/filepath"
	"sort"
)

var propText = map[string]struct{ rule, technique string }{
	"C10": {
		rule:      "One case = one simulated run: a seeded history of get/use/put/forget operations by one caller on one PoolAllocator (element type, allocator shape, handle kind, operation arguments drawn from the program tape) against the stub sync.Pool whose pick policy and putdrop/miss/gc faults are drawn from the schedule tape (lane real-sync.Pool: same tapes against the real pool, GOMAXPROCS=1, collector driven by the tape). A run is non-trivial iff at least one Get happened after a Put the pool accepted (the reuse path had its chance; whether the very same header came back is counted separately in probes_hit.reuse). Distinct = distinct 64-bit signature of the sequence of operation kinds, pool events (which object was put/recycled/dropped/created) and fault events, per lane.",
		technique: "deterministic simulation: seeded operation histories over a stub sync.Pool with injected pool faults (putdrop, miss, gc), freshness oracle against a fresh Alloc, crosstalk oracle between outstanding buffers",
	},
	"C11": {
		rule:      "One case = one simulated run: G caller tasks (real goroutines released one at a time by the seeded scheduler) each doing M get/check/use/stamp/hold/verify/put cycles on one shared PoolAllocator over the stub sync.Pool with seeded faults. Non-trivial iff the run had >=2 tasks and at least one Get returned after a Put the pool accepted (recycling of the very same header is counted separately in probes_hit). Distinct = distinct 64-bit signature of the sequence of (task, site) scheduler picks together with pool and fault events, per lane.",
		technique: "deterministic simulation: seeded cooperative scheduler over caller goroutines + stub sync.Pool with fault injection; race detector as happens-before oracle inside the serialized schedule; ownership stamps and header-identity interval check",
	},
	"C19": {
		rule:      "One case = one simulated run: R reader and W writer tasks over one shared buffer (readers over every read-only entry point, writers confined to disjoint frame ranges through Slice), executed twice from the same program tape: under the sequential reference schedule and under the drawn seeded schedule. Non-trivial iff >=2 tasks ran and at least one task switch happened in the concurrent execution. Distinct = distinct 64-bit signature of the sequence of (task, site) scheduler picks.",
		technique: "deterministic simulation: seeded cooperative scheduler over reader/writer goroutines; race detector as happens-before oracle inside the serialized schedule; equality with the sequential schedule of the same program",
	},
}

func sortedKeys[V any](m map[string]V) []string {
	ks := make([]string, 0, len(m))
	for k := range m {
		ks = append(ks, k)
	}
	sort.Strings(ks)
	return ks
}

func writeEvidence(prop, tier string, seed uint64, a *agg, bt *builtTree, lcs []laneCfg, wall float64, violations, nworkers int, known *knownSet, isolatedLanes []string) {
	var total int64
	for _, n := range a.runs {
		total += n
	}
	perHour := func(n int64) int64 {
		if wall <= 0 {
			return 0
		}
		return int64(float64(n) / wall * 3600)
	}
	faults := map[string]int64{}
	for k, v := range a.counters {
		if len(k) > 6 && k[:6] == "fault_" {
			faults[k] = v
		}
	}
	pairs := sortedKeys(a.pairs)
	laneDesc := []map[string]any{}
	for _, lc := range lcs {
		laneDesc = append(laneDesc, map[string]any{"lane": lc.Name, "race_detector_build": lc.Race, "pool": lc.Worker, "runs": a.runs[lc.Name]})
	}
	samples := []any{}
	for _, s := range a.samples {
		samples = append(samples, s)
	}
	for _, c := range a.cfgSamples {
		samples = append(samples, c)
	}
	zeroProbes := []string{}
	for _, k := range sortedKeys(a.probes) {
		if a.probes[k] == 0 {
			zeroProbes = append(zeroProbes, k)
		}
	}
	never := []string{}
	for id := range a.executed {
		if !a.preempted[id] && id < len(bt.rw.PointNames) {
			never = append(never, bt.rw.PointNames[id])
		}
	}
	sort.Strings(never)
	cov := map[string]any{
		"source_rewrite_level": map[string]any{"level": bt.level, "meaning": "2 = type-aware rewrite (cooperative blocking, clock, finalizers, inner points), 1 = inner points only, 0 = only sync.Pool re-pointed (the rewriter steps down if the rewritten tree does not build)"},
		"library_statements": map[string]any{
			"inner_yield_points_inserted":           len(bt.rw.PointNames) - 1,
			"reached_by_simulated_tasks":            len(a.executed),
			"pre_empted_right_before_at_least_once": len(a.preempted),
			"reached_but_never_pre_empted":          never,
			"meaning":                               "reach of the inner pre-emption: a statement counts as pre-empted when some run parked the executing task immediately before it and let the scheduler decide who runs next",
		},
		"evaluations":                        total,
		"distinct_nontrivial":                len(a.ntSigs),
		"rule":                               propText[prop].rule,
		"samples":                            samples,
		"nontrivial_runs":                    a.nontrivial,
		"distinct_signatures_all_runs":       len(a.allSigs),
		"runs_per_hour":                      perHour(total),
		"scheduler_steps":                    a.steps,
		"scheduler_steps_per_hour":           perHour(a.steps),
		"library_operations":                 a.ops,
		"simulated_time":                     fmt.Sprintf("%.1f simulated seconds on the runs' simulated clocks (per-run tick 1us..1s per scheduler step plus seeded clock jumps). The pinned library never reads a clock (time is used for a type only), so for it progress is measured in logical scheduler steps; the clock matters only for modified trees (DESIGN.md 2.6)", float64(a.counters["simulated_microseconds"])/1e6),
		"lanes_isolated_one_process_per_run": isolatedLanes,
		"lanes":                              laneDesc,
		"fault_kinds_fired":                  faults,
		"environment_counters":               a.counters,
		"probes_hit":                         a.probes,
		"probes_at_zero":                     zeroProbes,
		"context_switch_site_pairs":          map[string]any{"count": len(pairs), "pairs": pairs, "meaning": "ordered pairs (site executed by the previous task > site executed by the next task) observed at a task switch"},
		"tallies":                            a.tallies,
		"runs_hitting_step_cap":              a.overruns,
		"worker_processes_parallel":          nworkers,
		"build_seconds":                      bt.buildS,
		"tree_digest":                        treeDigest(),
		"sync_pool_references_rewritten":     bt.rw.Rewritten,
		"real_code":                          []string{"every line of pipelined.dev/signal from /repo's working tree (re-pointed: sync.Pool to the stub; in a modified tree also sync.Map, blocking operations, timers, finalizers, map ranges, selects - see stubbed)", "the Go race runtime (race lanes)", "Go runtime allocator and goroutines (tasks are real goroutines, released one at a time)"},
		"stubbed":                            []string{"sync.Pool -> simrt.Pool: executable contract with seeded pick policy and putdrop/miss/gc faults (lane real-sync.Pool delegates to the real pool)", "goroutine scheduling order: seeded cooperative scheduler, switch points before/after every library call and at inner points before every library statement, stall faults", "garbage collection of pooled objects: seeded two-stage gc event; finalizers (if a modified library registers any) run as a task at that event", "blocking operations, goroutines, clock and timers a modified library may use: cooperative / simulated (inert on the pinned tree)", "random choices of the Go runtime inside a modified library: map iteration order, select among ready cases, sync.Map (Range order), math/rand, processor count - drawn from the schedule tape (inert on the pinned tree; counters library_map_ranges_ordered, library_selects_ordered, library_random_draws)"},
		"technique":                          propText[prop].technique,
		"exhaustive":                         false,
	}
	if len(known.entries) > 0 || len(known.fixed) > 0 {
		cov["known_findings_file"] = map[string]any{"open_entries": len(known.entries), "fixed_entries": known.fixed}
	}
	ev := map[string]any{
		"property_id": prop,
		"tier":        tier,
		"seed":        seed,
		"level":       "exploration",
		"coverage":    cov,
		"assumptions": []string{
			"sampling: a clean batch is evidence, not proof",
			"the stub pool states sync.Pool's documented contract (Get returns an object previously Put and not since returned, or New(); objects may vanish; Put(x) synchronises-before the Get returning x)",
			"pre-emption granularity is the library statement (seeded inner points, at most 48 per run) and the library call; the race detector covers unsynchronised accesses at any granularity",
			"linux/amd64, the repository's own Go toolchain",
		},
		"wall_s":     wall,
		"violations": violations,
	}
	data, err := json.MarshalIndent(ev, "", " ")
	if err != nil {
		infra("evidence: %v", err)
	}
	path := filepath.Join(verifDir, "evidence", prop+".json")
	os.MkdirAll(filepath.Dir(path), 0o755)
	if err := os.WriteFile(path, data, 0o644); err != nil {
		infra("evidence: %v", err)
	}
	fmt.Printf("evidence written to %s (%d runs, %d steps, faults fired: %v)\n", path, total, a.steps, faults)
}
