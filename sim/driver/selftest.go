package main

func selftest(args []string) int { return 0 }
