package main

import (
	"flag"
	"fmt"
	"os"
	"os/exec"
	"strings"
	"sync"
	"time"
)

// selftest proves that a run is a pure function of (tree, property, lane,
// seed, run index): every lane of every property is executed for the same
// run indices in many fresh processes, at GOMAXPROCS 1, 4 and 16, alone and
// 16 processes at once, and the per-run records (configuration, schedule
// signature, steps, operations, outcome) must be identical everywhere.
func selftest(args []string) int {
	fs := flag.NewFlagSet("selftest", flag.ExitOnError)
	runs := fs.Int("runs", 40, "run indices per lane")
	reps := fs.Int("reps", 2, "repetitions per GOMAXPROCS setting")
	seeds := fs.Int("seeds", 3, "seeds")
	fs.Parse(args)
	t0 := time.Now()
	bad := 0
	total := 0
	for _, prop := range []string{"C10", "C11", "C19"} {
		bt := buildFor(prop)
		for _, lc := range lanes[prop] {
			for seed := uint64(1); seed <= uint64(*seeds); seed++ {
				type job struct {
					gmp, rep int
					out      string
				}
				var jobs []*job
				for _, gmp := range []int{1, 4, 16} {
					for rep := 0; rep < *reps; rep++ {
						jobs = append(jobs, &job{gmp: gmp, rep: rep})
					}
				}
				run := func(j *job) {
					args := append(workerArgs(prop, "quick", lc, seed), "-from", fmt.Sprint(lc.Offset), "-to", fmt.Sprint(lc.Offset+uint64(*runs)))
					cmd := exec.Command(bt.bins[lc.Race], args...)
					cmd.Env = append(os.Environ(), gorace, fmt.Sprintf("GOMAXPROCS=%d", j.gmp))
					out, err := cmd.Output()
					if err != nil {
						j.out = "ERROR " + err.Error()
						return
					}
					// keep only the per-run records
					var keep []string
					for _, l := range strings.Split(string(out), "\n") {
						if strings.HasPrefix(l, `{"t":"done"`) {
							keep = append(keep, l)
						}
					}
					j.out = strings.Join(keep, "\n")
				}
				// first half one process at a time, second half all at once
				half := len(jobs) / 2
				for _, j := range jobs[:half] {
					run(j)
				}
				var wg sync.WaitGroup
				for _, j := range jobs[half:] {
					wg.Add(1)
					go func(j *job) { defer wg.Done(); run(j) }(j)
				}
				wg.Wait()
				for _, j := range jobs {
					total++
					if j.out != jobs[0].out || strings.HasPrefix(j.out, "ERROR") || j.out == "" {
						bad++
						fmt.Printf("NONDETERMINISM: %s lane %s seed %d GOMAXPROCS=%d rep %d differs from the first process\n", prop, lc.Name, seed, j.gmp, j.rep)
						a, b := strings.Split(jobs[0].out, "\n"), strings.Split(j.out, "\n")
						for i := 0; i < len(a) && i < len(b); i++ {
							if a[i] != b[i] {
								fmt.Printf("  first : %.300s\n  this  : %.300s\n", a[i], b[i])
								break
							}
						}
					}
				}
				fmt.Printf("selftest %s lane %-14s seed %d: %d processes x %d runs compared\n", prop, lc.Name, seed, len(jobs), *runs)
			}
		}
		cleanupScratch()
	}
	fmt.Printf("selftest: %d processes, %d divergent, %.1fs\n", total, bad, time.Since(t0).Seconds())
	if bad > 0 {
		return 2
	}
	return 0
}
