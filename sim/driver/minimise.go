package main

import (
	"encoding/json"
	"fmt"
	"os"
	"path/filepath"
	"sort"
	"strings"
	"sync"
	"time"
)

// execTape runs one tape in a fresh worker process and returns what it found.
func execTape(bt *builtTree, prop, tier string, seed uint64, lc laneCfg, run uint64, tape Tape, trace bool) (viol *Violation, eff Tape, tr []string, stderr string, err error) {
	f, err := os.CreateTemp(bt.scratch, "cand-*.json")
	if err != nil {
		return nil, eff, nil, "", err
	}
	name := f.Name()
	defer os.Remove(name)
	data, _ := json.Marshal(replayFile{Property: prop, Tier: tier, Lane: lc.Name, Seed: seed, Run: run, Tape: tape})
	f.Write(data)
	f.Close()
	args := append(workerArgs(prop, tier, lc, seed), "-replay", name)
	if trace {
		args = append(args, "-trace")
	}
	wo := runWorker(bt.bins[lc.Race], 5*time.Minute, args...)
	if wo.err != nil {
		return nil, eff, nil, wo.stderr, wo.err
	}
	if wo.exit != 0 && wo.exit != 66 {
		return nil, eff, nil, wo.stderr, fmt.Errorf("worker exited %d\n%s", wo.exit, wo.stderr)
	}
	for _, l := range wo.lines {
		if l.T == "done" {
			if l.Tape != nil {
				eff = *l.Tape
			}
			return l.Viol, eff, l.Trace, wo.stderr, nil
		}
	}
	return nil, eff, nil, wo.stderr, fmt.Errorf("worker printed no result line\n%s", wo.stderr)
}

func cloneTape(t Tape) Tape {
	return Tape{Program: append([]uint64{}, t.Program...), Schedule: append([]uint64{}, t.Schedule...)}
}

func tapeSize(t Tape) (n int, sum uint64) {
	for _, v := range t.Program {
		sum += v
	}
	for _, v := range t.Schedule {
		sum += v
	}
	return len(t.Program) + len(t.Schedule), sum
}

// edit is one simplification of a tape: delete, zero, halve or decrement a
// block of one section. Sections are edited separately so that deleting a
// schedule entry never shifts the meaning of a program entry.
type edit struct {
	sec, kind, at, bs int
}

const (
	edTruncate = iota
	edDelete
	edZero
	edHalve
	edDecrement
)

func (e edit) apply(t Tape) (Tape, bool) {
	c := cloneTape(t)
	sp := &c.Schedule
	if e.sec == 0 {
		sp = &c.Program
	}
	s := *sp
	if e.at >= len(s) {
		return c, false
	}
	end := e.at + e.bs
	if end > len(s) {
		end = len(s)
	}
	changed := false
	switch e.kind {
	case edTruncate:
		*sp = s[:e.at]
		changed = true
	case edDelete:
		*sp = append(s[:e.at:e.at], s[end:]...)
		changed = true
	case edZero:
		for i := e.at; i < end; i++ {
			if s[i] != 0 {
				s[i] = 0
				changed = true
			}
		}
	case edHalve:
		for i := e.at; i < end; i++ {
			if s[i] > 1 {
				s[i] /= 2
				changed = true
			}
		}
	case edDecrement:
		for i := e.at; i < end; i++ {
			if s[i] > 0 {
				s[i]--
				changed = true
			}
		}
	}
	return c, changed
}

func secLen(t Tape, sec int) int {
	if sec == 0 {
		return len(t.Program)
	}
	return len(t.Schedule)
}

func smaller(a, b Tape) bool {
	an, as := tapeSize(a)
	bn, bs := tapeSize(b)
	return an < bn || (an == bn && as < bs)
}

var debugNonreproDone bool

// minimiseAndReport confirms the violation in fresh processes, shrinks the
// tape while the same violation class recurs, replays the result once more in
// a fresh process and returns the replay file contents.
func minimiseAndReport(bt *builtTree, prop, tier string, seed uint64, f *found) (*replayFile, bool) {
	lc := f.lane
	class := f.viol.Class
	// 1. the original tape must reproduce (three attempts): otherwise the
	// simulator is at fault, not the code under test.
	cur := f.tape
	confirmed := false
	for attempt := 0; attempt < 3 && !confirmed; attempt++ {
		v, eff, _, _, err := execTape(bt, prop, tier, seed, lc, f.run, f.tape, false)
		if err != nil {
			infra("replaying the violating tape failed: %v", err)
		}
		if v != nil && v.Class == class {
			confirmed = true
			cur = eff
		}
	}
	if !confirmed || (os.Getenv("VERIF_DEBUG_NONREPRO") != "" && !debugNonreproDone) {
		debugNonreproDone = true // self-test of the isolation fallback: pretend once that the tape did not reproduce
		return nil, false
	}
	// 2. shrink: sweeps over both sections with halving block sizes; after an
	// accepted edit the sweep continues where it is (no restart).
	t0 := time.Now()
	budgetN := envInt("VERIF_MIN_CANDIDATES", 30000)
	budgetT := time.Duration(envInt("VERIF_MIN_SECONDS", 60)) * time.Second
	tried, accepted := 0, 0
	par := envInt("VERIF_WORKERS", 16)
	startN, _ := tapeSize(cur)
	out := func() bool { return tried >= budgetN || time.Since(t0) > budgetT }
	// try evaluates a batch of edits of cur in parallel and adopts the first
	// (lowest index: deterministic) that reproduces the class with a smaller tape.
	try := func(edits []edit) int {
		type res struct {
			ok  bool
			eff Tape
		}
		rs := make([]res, len(edits))
		var wg sync.WaitGroup
		for i, e := range edits {
			cand, changed := e.apply(cur)
			if !changed {
				continue
			}
			wg.Add(1)
			tried++
			go func(i int, cand Tape) {
				defer wg.Done()
				v, eff, _, _, err := execTape(bt, prop, tier, seed, lc, f.run, cand, false)
				if err == nil && v != nil && v.Class == class {
					rs[i] = res{true, eff}
				}
			}(i, cand)
		}
		wg.Wait()
		for i, r := range rs {
			if r.ok && smaller(r.eff, cur) {
				cur = r.eff
				accepted++
				return i
			}
		}
		return -1
	}
	sweep := func(sec, kind, bs int) bool {
		progress := false
		for pos := 0; pos < secLen(cur, sec) && !out(); {
			var batch []edit
			for p := pos; p < secLen(cur, sec) && len(batch) < par; p += bs {
				batch = append(batch, edit{sec, kind, p, bs})
			}
			if hit := try(batch); hit >= 0 {
				progress = true
				pos = batch[hit].at
				if kind != edDelete {
					pos += bs
				}
			} else {
				pos = batch[len(batch)-1].at + bs
			}
		}
		return progress
	}
	for cycle := 0; cycle < 6 && !out(); cycle++ {
		progress := false
		// whole units first (tasks, cycles, operations), largest first; the
		// spans are those of the current effective tape, recomputed by every
		// accepted replay.
		for again := true; again && !out(); {
			again = false
			spans := append([][2]int{}, cur.ProgramSpans...)
			sort.Slice(spans, func(i, j int) bool {
				li, lj := spans[i][1]-spans[i][0], spans[j][1]-spans[j][0]
				if li != lj {
					return li > lj
				}
				return spans[i][0] < spans[j][0]
			})
			for at := 0; at < len(spans) && !out(); at += par {
				end := at + par
				if end > len(spans) {
					end = len(spans)
				}
				var batch []edit
				for _, sp := range spans[at:end] {
					batch = append(batch, edit{0, edDelete, sp[0], sp[1] - sp[0]})
				}
				if try(batch) >= 0 {
					progress, again = true, true
					break
				}
			}
		}
		for sec := 1; sec >= 0; sec-- {
			n := secLen(cur, sec)
			var tr []edit
			for _, keep := range []int{0, n / 8, n / 4, n / 2, n * 3 / 4, n - 1} {
				if keep >= 0 && keep < n {
					tr = append(tr, edit{sec, edTruncate, keep, 0})
				}
			}
			if len(tr) > 0 && try(tr) >= 0 {
				progress = true
			}
			for bs := secLen(cur, sec) / 2; bs >= 1 && !out(); bs /= 2 {
				if sweep(sec, edDelete, bs) {
					progress = true
				}
				if sweep(sec, edZero, bs) {
					progress = true
				}
			}
			for _, kind := range []int{edHalve, edDecrement} {
				if !out() && sweep(sec, kind, 1) {
					progress = true
				}
			}
		}
		if !progress {
			break
		}
	}
	// 3. final replay of the minimised tape in a fresh process, with trace
	v, eff, tr, stderr, err := execTape(bt, prop, tier, seed, lc, f.run, cur, true)
	if err != nil || v == nil || v.Class != class {
		// fall back to the confirmed original tape rather than report something that does not replay
		v, eff, tr, stderr, err = execTape(bt, prop, tier, seed, lc, f.run, f.tape, true)
		if err != nil || v == nil || v.Class != class {
			infra("nondeterministic replay: neither the minimised nor the original tape reproduced [%s] in the final fresh process", class)
		}
	}
	endN, _ := tapeSize(eff)
	if len(tr) > 2000 {
		tr = append(append(append([]string{}, tr[:200]...), fmt.Sprintf("... (%d trace lines omitted; replay prints them all) ...", len(tr)-1200)), tr[len(tr)-1000:]...)
	}
	rf := &replayFile{Property: prop, Tier: tier, Lane: lc.Name, Seed: seed, Run: f.run, Tape: eff, Violation: v,
		Trace: tr, TreeDigest: treeDigest(),
		Minimised: fmt.Sprintf("%d -> %d tape entries, %d candidates executed, %d accepted, %.1fs", startN, endN, tried, accepted, time.Since(t0).Seconds())}
	if class == "data-race" {
		rf.RaceReport = raceReport(stderr)
		if len(rf.Trace) == 0 {
			rf.Trace = traceFromStderr(stderr)
		}
	}
	return rf, true
}

func raceReport(stderr string) string {
	var keep []string
	for _, l := range strings.Split(stderr, "\n") {
		if strings.HasPrefix(l, "TRACE ") {
			continue
		}
		keep = append(keep, l)
	}
	s := strings.TrimSpace(strings.Join(keep, "\n"))
	if len(s) > 6000 {
		s = s[:6000] + "\n..."
	}
	return s
}

func traceFromStderr(stderr string) []string {
	var tr []string
	for _, l := range strings.Split(stderr, "\n") {
		if strings.HasPrefix(l, "TRACE ") {
			tr = append(tr, strings.TrimPrefix(l, "TRACE "))
		}
	}
	return tr
}

// replayCmd re-executes a replay file against /repo's current tree.
func replayCmd(path string) int {
	data, err := os.ReadFile(path)
	if err != nil {
		infra("%v", err)
	}
	var rf replayFile
	if err := json.Unmarshal(data, &rf); err != nil {
		infra("parse %s: %v", path, err)
	}
	var lc *laneCfg
	for i := range lanes[rf.Property] {
		if lanes[rf.Property][i].Name == rf.Lane {
			lc = &lanes[rf.Property][i]
		}
	}
	if lc == nil {
		infra("replay file names unknown property/lane %s/%s", rf.Property, rf.Lane)
	}
	one := map[string][]laneCfg{rf.Property: {*lc}}
	saved := lanes
	lanes = one
	bt := buildFor(rf.Property)
	lanes = saved
	var v *Violation
	var tr []string
	var stderr string
	if rf.ChunkFrom != nil {
		v, tr, stderr = runPrefix(bt, rf.Property, rf.Tier, rf.Seed, *lc, *rf.ChunkFrom, rf.Run, true)
	} else {
		var err error
		v, _, tr, stderr, err = execTape(bt, rf.Property, rf.Tier, rf.Seed, *lc, rf.Run, rf.Tape, true)
		if err != nil {
			infra("replay failed: %v", err)
		}
	}
	if len(tr) == 0 {
		tr = traceFromStderr(stderr)
	}
	for _, l := range tr {
		fmt.Println("| " + l)
	}
	if v == nil {
		fmt.Printf("replay of %s: no violation on the current tree (tree digest %s, recorded %s)\n", filepath.Base(path), treeDigest(), rf.TreeDigest)
		return 0
	}
	if v.Class == "data-race" {
		fmt.Println(indent(raceReport(stderr), "# "))
	}
	fmt.Printf("replay of %s: [%s] %s\n", filepath.Base(path), v.Class, v.Detail)
	if rf.Violation != nil && rf.Violation.Class != v.Class {
		fmt.Printf("note: recorded class was [%s]\n", rf.Violation.Class)
	}
	fmt.Printf("VIOLATION property=%s replay=%s\n", rf.Property, path)
	return 1
}

// runPrefix executes runs from..run of the seed in one fresh worker process
// and returns the violation reported for run (nil if none, or if an earlier
// run violated).
func runPrefix(bt *builtTree, prop, tier string, seed uint64, lc laneCfg, from, run uint64, trace bool) (*Violation, []string, string) {
	args := append(workerArgs(prop, tier, lc, seed), "-from", fmt.Sprint(from), "-to", fmt.Sprint(run+1))
	if trace {
		args = append(args, "-tracerun", fmt.Sprint(run))
	}
	wo := runWorker(bt.bins[lc.Race], 30*time.Minute, args...)
	if wo.err != nil {
		return nil, nil, wo.stderr
	}
	for _, l := range wo.lines {
		if l.T == "done" && l.Viol != nil {
			if l.Run == run {
				return l.Viol, l.Trace, wo.stderr
			}
			return nil, nil, wo.stderr
		}
	}
	return nil, nil, wo.stderr
}

// prefixReplay is the fallback for violations that depend on state the
// library keeps at package level between the runs of one worker process: the
// replay is then the whole prefix of the chunk, executed in one fresh process.
// It is exact (runs are regenerated from the seed) but not minimised.
func prefixReplay(bt *builtTree, prop, tier string, seed uint64, f *found) *replayFile {
	for attempt := 0; attempt < 2; attempt++ {
		v, _, _ := runPrefix(bt, prop, tier, seed, f.lane, f.from, f.run, false)
		if v == nil || v.Class != f.viol.Class {
			return nil
		}
	}
	v, tr, stderr := runPrefix(bt, prop, tier, seed, f.lane, f.from, f.run, true)
	if v == nil || v.Class != f.viol.Class {
		return nil
	}
	from := f.from
	rf := &replayFile{Property: prop, Tier: tier, Lane: f.lane.Name, Seed: seed, Run: f.run, Violation: v, Trace: tr,
		TreeDigest: treeDigest(), ChunkFrom: &from,
		Minimised: fmt.Sprintf("not minimised: the violation needs the %d preceding runs of the same worker process (state kept by the library at package level); the replay executes runs %d..%d of seed %d in one fresh process", f.run-f.from, f.from, f.run, seed)}
	if v.Class == "data-race" {
		rf.RaceReport = raceReport(stderr)
	}
	return rf
}
