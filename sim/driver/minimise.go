package main

import (
	"encoding/json"
	"fmt"
	"os"
	"path/filepath"
	"strings"
	"sync"
	"time"
)

// execTape runs one tape in a fresh worker process and returns what it found.
func execTape(bt *builtTree, prop, tier string, seed uint64, lc laneCfg, run uint64, tape Tape, trace bool) (viol *Violation, eff Tape, tr []string, stderr string, err error) {
	f, err := os.CreateTemp(bt.scratch, "cand-*.json")
	if err != nil {
		return nil, eff, nil, "", err
	}
	name := f.Name()
	defer os.Remove(name)
	data, _ := json.Marshal(replayFile{Property: prop, Tier: tier, Lane: lc.Name, Seed: seed, Run: run, Tape: tape})
	f.Write(data)
	f.Close()
	args := append(workerArgs(prop, tier, lc, seed), "-replay", name)
	if trace {
		args = append(args, "-trace")
	}
	wo := runWorker(bt.bins[lc.Race], 5*time.Minute, args...)
	if wo.err != nil {
		return nil, eff, nil, wo.stderr, wo.err
	}
	if wo.exit != 0 && wo.exit != 66 {
		return nil, eff, nil, wo.stderr, fmt.Errorf("worker exited %d\n%s", wo.exit, wo.stderr)
	}
	for _, l := range wo.lines {
		if l.T == "done" {
			if l.Tape != nil {
				eff = *l.Tape
			}
			return l.Viol, eff, l.Trace, wo.stderr, nil
		}
	}
	return nil, eff, nil, wo.stderr, fmt.Errorf("worker printed no result line\n%s", wo.stderr)
}

func cloneTape(t Tape) Tape {
	return Tape{Program: append([]uint64{}, t.Program...), Schedule: append([]uint64{}, t.Schedule...)}
}

func tapeSize(t Tape) (n int, sum uint64) {
	for _, v := range t.Program {
		sum += v
	}
	for _, v := range t.Schedule {
		sum += v
	}
	return len(t.Program) + len(t.Schedule), sum
}

// candidates proposes simpler tapes, simplest first: truncations, block
// deletions, block zeroing, value reduction. Each section is treated
// separately so that deleting a schedule entry never shifts the meaning of a
// program entry.
func candidates(t Tape, round int) []Tape {
	var out []Tape
	edit := func(sec int, f func(s []uint64) []uint64) {
		c := cloneTape(t)
		if sec == 0 {
			c.Program = f(c.Program)
		} else {
			c.Schedule = f(c.Schedule)
		}
		out = append(out, c)
	}
	for sec := 1; sec >= 0; sec-- {
		s := t.Schedule
		if sec == 0 {
			s = t.Program
		}
		n := len(s)
		if n == 0 {
			continue
		}
		// truncation (the tail replays as zeros = simplest choices)
		for _, keep := range []int{0, n / 4, n / 2, n * 3 / 4, n - 1} {
			if keep < n {
				k := keep
				edit(sec, func(s []uint64) []uint64 { return s[:k] })
			}
		}
		// block deletion and zeroing, block size halving with the round
		bs := n >> uint(round+1)
		if bs < 1 {
			bs = 1
		}
		for at := 0; at < n; at += bs {
			a, b := at, at+bs
			if b > n {
				b = n
			}
			edit(sec, func(s []uint64) []uint64 { return append(s[:a:a], s[b:]...) })
			nonzero := false
			for _, v := range s[a:b] {
				if v != 0 {
					nonzero = true
				}
			}
			if nonzero {
				edit(sec, func(s []uint64) []uint64 {
					for i := a; i < b; i++ {
						s[i] = 0
					}
					return s
				})
			}
		}
		// value reduction
		if bs == 1 {
			for i, v := range s {
				if v > 1 {
					i, v := i, v
					edit(sec, func(s []uint64) []uint64 { s[i] = v / 2; return s })
					edit(sec, func(s []uint64) []uint64 { s[i] = v - 1; return s })
				}
			}
		}
	}
	return out
}

// minimiseAndReport confirms the violation in fresh processes, shrinks the
// tape while the same violation class recurs, replays the result once more in
// a fresh process and returns the replay file contents.
func minimiseAndReport(bt *builtTree, prop, tier string, seed uint64, f *found) *replayFile {
	lc := f.lane
	class := f.viol.Class
	// 1. the original tape must reproduce (three attempts): otherwise the
	// simulator is at fault, not the code under test.
	cur := f.tape
	confirmed := false
	for attempt := 0; attempt < 3 && !confirmed; attempt++ {
		v, eff, _, _, err := execTape(bt, prop, tier, seed, lc, f.run, f.tape, false)
		if err != nil {
			infra("replaying the violating tape failed: %v", err)
		}
		if v != nil && v.Class == class {
			confirmed = true
			cur = eff
		}
	}
	if !confirmed {
		infra("nondeterministic replay: lane %s run %d reported [%s] %s but its tape does not reproduce it in three fresh processes",
			lc.Name, f.run, class, f.viol.Detail)
	}
	// 2. shrink
	t0 := time.Now()
	budgetN, budgetT := envInt("VERIF_MIN_CANDIDATES", 2000), 90*time.Second
	tried, accepted := 0, 0
	par := envInt("VERIF_WORKERS", 16)
	startN, _ := tapeSize(cur)
	for round := 0; round < 40 && tried < budgetN && time.Since(t0) < budgetT; {
		cands := candidates(cur, round)
		progress := false
		for at := 0; at < len(cands) && tried < budgetN && time.Since(t0) < budgetT; at += par {
			end := at + par
			if end > len(cands) {
				end = len(cands)
			}
			type res struct {
				ok  bool
				eff Tape
			}
			rs := make([]res, end-at)
			var wg sync.WaitGroup
			for i := at; i < end; i++ {
				wg.Add(1)
				go func(i int) {
					defer wg.Done()
					v, eff, _, _, err := execTape(bt, prop, tier, seed, lc, f.run, cands[i], false)
					if err == nil && v != nil && v.Class == class {
						rs[i-at] = res{true, eff}
					}
				}(i)
			}
			wg.Wait()
			tried += end - at
			for _, r := range rs { // lowest index wins: deterministic
				if !r.ok {
					continue
				}
				cn, cs := tapeSize(cur)
				rn, rsum := tapeSize(r.eff)
				if rn < cn || (rn == cn && rsum < cs) {
					cur = r.eff
					accepted++
					progress = true
					break
				}
			}
			if progress {
				break
			}
		}
		if !progress {
			n, _ := tapeSize(cur)
			if n>>uint(round+1) <= 1 {
				break // a full pass at block size 1 made no progress
			}
			round++
		}
	}
	// 3. final replay of the minimised tape in a fresh process, with trace
	v, eff, tr, stderr, err := execTape(bt, prop, tier, seed, lc, f.run, cur, true)
	if err != nil || v == nil || v.Class != class {
		// fall back to the confirmed original tape rather than report something that does not replay
		v, eff, tr, stderr, err = execTape(bt, prop, tier, seed, lc, f.run, f.tape, true)
		if err != nil || v == nil || v.Class != class {
			infra("nondeterministic replay: neither the minimised nor the original tape reproduced [%s] in the final fresh process", class)
		}
	}
	endN, _ := tapeSize(eff)
	rf := &replayFile{Property: prop, Tier: tier, Lane: lc.Name, Seed: seed, Run: f.run, Tape: eff, Violation: v,
		Trace: tr, TreeDigest: treeDigest(),
		Minimised: fmt.Sprintf("%d -> %d tape entries, %d candidates executed, %d accepted, %.1fs", startN, endN, tried, accepted, time.Since(t0).Seconds())}
	if class == "data-race" {
		rf.RaceReport = raceReport(stderr)
		if len(rf.Trace) == 0 {
			rf.Trace = traceFromStderr(stderr)
		}
	}
	return rf
}

func raceReport(stderr string) string {
	var keep []string
	for _, l := range strings.Split(stderr, "\n") {
		if strings.HasPrefix(l, "TRACE ") {
			continue
		}
		keep = append(keep, l)
	}
	s := strings.TrimSpace(strings.Join(keep, "\n"))
	if len(s) > 6000 {
		s = s[:6000] + "\n..."
	}
	return s
}

func traceFromStderr(stderr string) []string {
	var tr []string
	for _, l := range strings.Split(stderr, "\n") {
		if strings.HasPrefix(l, "TRACE ") {
			tr = append(tr, strings.TrimPrefix(l, "TRACE "))
		}
	}
	return tr
}

// replayCmd re-executes a replay file against /repo's current tree.
func replayCmd(path string) int {
	data, err := os.ReadFile(path)
	if err != nil {
		infra("%v", err)
	}
	var rf replayFile
	if err := json.Unmarshal(data, &rf); err != nil {
		infra("parse %s: %v", path, err)
	}
	var lc *laneCfg
	for i := range lanes[rf.Property] {
		if lanes[rf.Property][i].Name == rf.Lane {
			lc = &lanes[rf.Property][i]
		}
	}
	if lc == nil {
		infra("replay file names unknown property/lane %s/%s", rf.Property, rf.Lane)
	}
	one := map[string][]laneCfg{rf.Property: {*lc}}
	saved := lanes
	lanes = one
	bt := buildFor(rf.Property)
	lanes = saved
	v, _, tr, stderr, err := execTape(bt, rf.Property, rf.Tier, rf.Seed, *lc, rf.Run, rf.Tape, true)
	if err != nil {
		infra("replay failed: %v", err)
	}
	if len(tr) == 0 {
		tr = traceFromStderr(stderr)
	}
	for _, l := range tr {
		fmt.Println("| " + l)
	}
	if v == nil {
		fmt.Printf("replay of %s: no violation on the current tree (tree digest %s, recorded %s)\n", filepath.Base(path), treeDigest(), rf.TreeDigest)
		return 0
	}
	if v.Class == "data-race" {
		fmt.Println(indent(raceReport(stderr), "# "))
	}
	fmt.Printf("replay of %s: [%s] %s\n", filepath.Base(path), v.Class, v.Detail)
	if rf.Violation != nil && rf.Violation.Class != v.Class {
		fmt.Printf("note: recorded class was [%s]\n", rf.Violation.Class)
	}
	fmt.Printf("VIOLATION property=%s replay=%s\n", rf.Property, path)
	return 1
}
