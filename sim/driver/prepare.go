package main

import (
	"bytes"
	"fmt"
	"go/ast"
	"go/parser"
	"go/printer"
	"go/token"
	"io"
	"io/fs"
	"os"
	"os/exec"
	"path/filepath"
	"strconv"
	"strings"
)

const repoDir = "/repo"

// verifDir is where the simulator sources, evidence and replays live
// (VERIF_DIR, set by verif.sh to its own directory).
var verifDir = func() string {
	if d := os.Getenv("VERIF_DIR"); d != "" {
		return d
	}
	return "/verif"
}()

func goEnv() []string {
	env := os.Environ()
	env = append(env, "GOFLAGS=-mod=mod", "GOPROXY=off", "GOSUMDB=off", "GOTOOLCHAIN=local")
	return env
}

func copyFile(src, dst string) error {
	in, err := os.Open(src)
	if err != nil {
		return err
	}
	defer in.Close()
	if err := os.MkdirAll(filepath.Dir(dst), 0o755); err != nil {
		return err
	}
	out, err := os.Create(dst)
	if err != nil {
		return err
	}
	if _, err := io.Copy(out, in); err != nil {
		out.Close()
		return err
	}
	return out.Close()
}

func copyTree(src, dst string, keep func(rel string, d fs.DirEntry) bool) error {
	return filepath.WalkDir(src, func(p string, d fs.DirEntry, err error) error {
		if err != nil {
			return err
		}
		rel, _ := filepath.Rel(src, p)
		if rel == "." {
			return nil
		}
		if !keep(rel, d) {
			if d.IsDir() {
				return filepath.SkipDir
			}
			return nil
		}
		if d.IsDir() {
			return os.MkdirAll(filepath.Join(dst, rel), 0o755)
		}
		return copyFile(p, filepath.Join(dst, rel))
	})
}

// rewriteStats says what the sync.Pool -> simrt.Pool rewrite did.
type rewriteStats struct {
	Files     int
	Rewritten int // selector expressions replaced
	Points    int // inner yield points inserted
}

// rewriteFile applies both source transformations to one Go file of the
// scratch copy: (1) every reference to sync.Pool is re-pointed to the stub
// simrt.Pool; (2) inner yield points: simrt.Point() before every statement of
// every function body, simrt.Locked()/Unlocking() around the library's own
// critical sections, and "go f()" turned into simrt.Spawn so that goroutines
// the library starts stay under the scheduler's control.
func rewriteFile(path string) (poolRefs, points int, err error) {
	fset := token.NewFileSet()
	f, err := parser.ParseFile(fset, path, nil, parser.ParseComments)
	if err != nil {
		return 0, 0, err
	}
	syncName := ""
	var syncSpec *ast.ImportSpec
	haveSimrt := false
	for _, is := range f.Imports {
		p, _ := strconv.Unquote(is.Path.Value)
		if p == "sync" {
			syncName = "sync"
			if is.Name != nil {
				syncName = is.Name.Name
			}
			syncSpec = is
		}
		if p == "verif.local/simrt" {
			haveSimrt = true
		}
	}
	others := 0
	if syncSpec != nil && syncName != "_" && syncName != "." {
		ast.Inspect(f, func(node ast.Node) bool {
			sel, ok := node.(*ast.SelectorExpr)
			if !ok {
				return true
			}
			id, ok := sel.X.(*ast.Ident)
			if !ok || id.Name != syncName || id.Obj != nil {
				return true
			}
			if sel.Sel.Name == "Pool" {
				id.Name = "simrt"
				poolRefs++
			} else {
				others++
			}
			return true
		})
	}
	if os.Getenv("VERIF_NO_INNER") == "" {
		points = instrument(f)
	}
	if poolRefs == 0 && points == 0 {
		return 0, 0, nil
	}
	if !haveSimrt {
		if syncSpec != nil && poolRefs > 0 && others == 0 {
			// sync is no longer used: turn its import into the simrt import.
			syncSpec.Path.Value = strconv.Quote("verif.local/simrt")
			syncSpec.Name = ast.NewIdent("simrt")
		} else {
			spec := &ast.ImportSpec{Name: ast.NewIdent("simrt"), Path: &ast.BasicLit{Kind: token.STRING, Value: strconv.Quote("verif.local/simrt")}}
			gd := &ast.GenDecl{Tok: token.IMPORT, Specs: []ast.Spec{spec}}
			// a new import declaration right after the last existing one (or first)
			at := 0
			for i, d := range f.Decls {
				if g, ok := d.(*ast.GenDecl); ok && g.Tok == token.IMPORT {
					at = i + 1
				}
			}
			f.Decls = append(f.Decls[:at], append([]ast.Decl{gd}, f.Decls[at:]...)...)
			f.Imports = append(f.Imports, spec)
		}
	}
	var buf bytes.Buffer
	// Comments are dropped from the rewritten copy: after inserting statements
	// their positions would be meaningless (and //go: directives are re-added
	// nowhere: the library has none on functions).
	f.Comments = nil
	if err := printer.Fprint(&buf, fset, f); err != nil {
		return 0, 0, err
	}
	return poolRefs, points, os.WriteFile(path, buf.Bytes(), 0o644)
}

func simrtCall(name string) ast.Stmt {
	return &ast.ExprStmt{X: &ast.CallExpr{Fun: &ast.SelectorExpr{X: ast.NewIdent("simrt"), Sel: ast.NewIdent(name)}}}
}

// lockKind classifies a call expression by method name: +1 acquires, -1
// releases, 2 = once.Do style (holds an internal lock while running f).
func lockKind(e ast.Expr) int {
	call, ok := e.(*ast.CallExpr)
	if !ok {
		return 0
	}
	sel, ok := call.Fun.(*ast.SelectorExpr)
	if !ok {
		return 0
	}
	switch sel.Sel.Name {
	case "Lock", "RLock":
		if len(call.Args) == 0 {
			return 1
		}
	case "Unlock", "RUnlock":
		if len(call.Args) == 0 {
			return -1
		}
	case "Do":
		if len(call.Args) == 1 {
			return 2
		}
	}
	return 0
}

// instrument inserts the inner yield points into every function body.
func instrument(f *ast.File) int {
	n := 0
	var list func(stmts []ast.Stmt) []ast.Stmt
	var walk func(node ast.Node)
	rewriteStmt := func(s ast.Stmt) []ast.Stmt {
		switch st := s.(type) {
		case *ast.ExprStmt:
			switch lockKind(st.X) {
			case 1:
				return []ast.Stmt{s, simrtCall("Locked")}
			case -1:
				return []ast.Stmt{simrtCall("Unlocking"), s}
			case 2:
				return []ast.Stmt{simrtCall("Locked"), s, simrtCall("Unlocking")}
			}
		case *ast.DeferStmt:
			if lockKind(st.Call) == -1 {
				body := &ast.BlockStmt{List: []ast.Stmt{simrtCall("Unlocking"), &ast.ExprStmt{X: st.Call}}}
				st.Call = &ast.CallExpr{Fun: &ast.FuncLit{Type: &ast.FuncType{Params: &ast.FieldList{}}, Body: body}}
			}
		case *ast.GoStmt:
			// go f(args) -> simrt.Spawn(func() { f(args) }) with the arguments
			// evaluated at the go statement, as the language requires.
			call := st.Call
			var pre []ast.Stmt
			for i, a := range call.Args {
				if _, lit := a.(*ast.BasicLit); lit {
					continue
				}
				name := ast.NewIdent("simrtArg" + strconv.Itoa(n) + "_" + strconv.Itoa(i))
				pre = append(pre, &ast.AssignStmt{Lhs: []ast.Expr{name}, Tok: token.DEFINE, Rhs: []ast.Expr{a}})
				call.Args[i] = name
			}
			n++
			spawn := &ast.ExprStmt{X: &ast.CallExpr{
				Fun:  &ast.SelectorExpr{X: ast.NewIdent("simrt"), Sel: ast.NewIdent("Spawn")},
				Args: []ast.Expr{&ast.FuncLit{Type: &ast.FuncType{Params: &ast.FieldList{}}, Body: &ast.BlockStmt{List: []ast.Stmt{&ast.ExprStmt{X: call}}}}},
			}}
			if call.Ellipsis.IsValid() {
				return []ast.Stmt{s} // variadic spread: leave as is
			}
			return append(pre, spawn)
		}
		return []ast.Stmt{s}
	}
	list = func(stmts []ast.Stmt) []ast.Stmt {
		out := make([]ast.Stmt, 0, 2*len(stmts))
		for _, s := range stmts {
			walk(s)
			out = append(out, simrtCall("Point"))
			n++
			out = append(out, rewriteStmt(s)...)
		}
		return out
	}
	walk = func(node ast.Node) {
		ast.Inspect(node, func(c ast.Node) bool {
			switch b := c.(type) {
			case *ast.SwitchStmt:
				if b.Init != nil {
					walk(b.Init)
				}
				if b.Tag != nil {
					walk(b.Tag)
				}
				for _, cl := range b.Body.List {
					walk(cl)
				}
				return false
			case *ast.TypeSwitchStmt:
				if b.Init != nil {
					walk(b.Init)
				}
				walk(b.Assign)
				for _, cl := range b.Body.List {
					walk(cl)
				}
				return false
			case *ast.SelectStmt:
				for _, cl := range b.Body.List {
					walk(cl)
				}
				return false
			case *ast.BlockStmt:
				if b != nil {
					b.List = list(b.List)
				}
				return false
			case *ast.CaseClause:
				for _, e := range b.List {
					walk(e)
				}
				b.Body = list(b.Body)
				return false
			case *ast.CommClause:
				b.Body = list(b.Body)
				return false
			}
			return true
		})
	}
	for _, d := range f.Decls {
		switch fd := d.(type) {
		case *ast.FuncDecl:
			if fd.Body != nil {
				walk(fd.Body)
			}
		case *ast.GenDecl:
			// function literals in package-level initialisers
			walk(fd)
		}
	}
	return n
}

// prepare builds the scratch tree: a rewritten copy of /repo's current working
// tree, the simulator runtime and the harness.
func prepare(scratch string) (rewriteStats, error) {
	var st rewriteStats
	sig := filepath.Join(scratch, "signal")
	err := copyTree(repoDir, sig, func(rel string, d fs.DirEntry) bool {
		base := filepath.Base(rel)
		if d.IsDir() {
			return !strings.HasPrefix(base, ".") && base != "testdata" && base != "vendor"
		}
		if base == "go.mod" || base == "go.sum" {
			return true
		}
		return strings.HasSuffix(base, ".go") && !strings.HasSuffix(base, "_test.go")
	})
	if err != nil {
		return st, err
	}
	err = filepath.WalkDir(sig, func(p string, d fs.DirEntry, err error) error {
		if err != nil || d.IsDir() || !strings.HasSuffix(p, ".go") {
			return err
		}
		st.Files++
		n, pts, err := rewriteFile(p)
		st.Rewritten += n
		st.Points += pts
		return err
	})
	if err != nil {
		return st, err
	}
	gm, err := os.ReadFile(filepath.Join(sig, "go.mod"))
	if err != nil {
		return st, err
	}
	gm = append(gm, []byte("\nrequire verif.local/simrt v0.0.0\n\nreplace verif.local/simrt => ../simrt\n")...)
	if err := os.WriteFile(filepath.Join(sig, "go.mod"), gm, 0o644); err != nil {
		return st, err
	}
	all := func(rel string, d fs.DirEntry) bool { return true }
	if err := copyTree(filepath.Join(verifDir, "sim", "simrt"), filepath.Join(scratch, "simrt"), all); err != nil {
		return st, err
	}
	if err := copyTree(filepath.Join(verifDir, "sim", "harness"), filepath.Join(scratch, "harness"), all); err != nil {
		return st, err
	}
	if _, err := os.Stat(filepath.Join(sig, "go.sum")); err == nil {
		if err := copyFile(filepath.Join(sig, "go.sum"), filepath.Join(scratch, "harness", "go.sum")); err != nil {
			return st, err
		}
	}
	return st, nil
}

// buildWorker compiles the worker in the scratch tree.
func buildWorker(scratch string, race bool) (string, error) {
	out := filepath.Join(scratch, "worker")
	args := []string{"build"}
	if race {
		args = append(args, "-race")
		out += "-race"
	}
	args = append(args, "-o", out, ".")
	cmd := exec.Command("go", args...)
	cmd.Dir = filepath.Join(scratch, "harness")
	cmd.Env = goEnv()
	var buf bytes.Buffer
	cmd.Stdout, cmd.Stderr = &buf, &buf
	if err := cmd.Run(); err != nil {
		return "", fmt.Errorf("go %s: %v\n%s", strings.Join(args, " "), err, buf.String())
	}
	return out, nil
}
