package main

import (
	"bytes"
	"fmt"
	"go/ast"
	"go/parser"
	"go/printer"
	"go/token"
	"io"
	"io/fs"
	"os"
	"os/exec"
	"path/filepath"
	"strconv"
	"strings"
)

const (
	repoDir  = "/repo"
	verifDir = "/verif"
)

func goEnv() []string {
	env := os.Environ()
	env = append(env, "GOFLAGS=-mod=mod", "GOPROXY=off", "GOSUMDB=off", "GOTOOLCHAIN=local")
	return env
}

func copyFile(src, dst string) error {
	in, err := os.Open(src)
	if err != nil {
		return err
	}
	defer in.Close()
	if err := os.MkdirAll(filepath.Dir(dst), 0o755); err != nil {
		return err
	}
	out, err := os.Create(dst)
	if err != nil {
		return err
	}
	if _, err := io.Copy(out, in); err != nil {
		out.Close()
		return err
	}
	return out.Close()
}

func copyTree(src, dst string, keep func(rel string, d fs.DirEntry) bool) error {
	return filepath.WalkDir(src, func(p string, d fs.DirEntry, err error) error {
		if err != nil {
			return err
		}
		rel, _ := filepath.Rel(src, p)
		if rel == "." {
			return nil
		}
		if !keep(rel, d) {
			if d.IsDir() {
				return filepath.SkipDir
			}
			return nil
		}
		if d.IsDir() {
			return os.MkdirAll(filepath.Join(dst, rel), 0o755)
		}
		return copyFile(p, filepath.Join(dst, rel))
	})
}

// rewriteStats says what the sync.Pool -> simrt.Pool rewrite did.
type rewriteStats struct {
	Files     int
	Rewritten int // selector expressions replaced
}

// rewritePool replaces every reference to sync.Pool in the Go file by
// simrt.Pool (the stub with the same method set and New field).
func rewritePool(path string) (int, error) {
	fset := token.NewFileSet()
	f, err := parser.ParseFile(fset, path, nil, parser.ParseComments)
	if err != nil {
		return 0, err
	}
	syncName := ""
	var syncSpec *ast.ImportSpec
	for _, is := range f.Imports {
		p, _ := strconv.Unquote(is.Path.Value)
		if p == "sync" {
			syncName = "sync"
			if is.Name != nil {
				syncName = is.Name.Name
			}
			syncSpec = is
		}
	}
	if syncSpec == nil || syncName == "_" || syncName == "." {
		return 0, nil
	}
	n, others := 0, 0
	ast.Inspect(f, func(node ast.Node) bool {
		sel, ok := node.(*ast.SelectorExpr)
		if !ok {
			return true
		}
		id, ok := sel.X.(*ast.Ident)
		if !ok || id.Name != syncName || id.Obj != nil {
			return true
		}
		if sel.Sel.Name == "Pool" {
			id.Name = "simrt"
			n++
		} else {
			others++
		}
		return true
	})
	if n == 0 {
		return 0, nil
	}
	if others == 0 {
		// sync is no longer used: turn its import into the simrt import.
		syncSpec.Path.Value = strconv.Quote("verif.local/simrt")
		syncSpec.Name = ast.NewIdent("simrt")
	} else {
		spec := &ast.ImportSpec{Name: ast.NewIdent("simrt"), Path: &ast.BasicLit{Kind: token.STRING, Value: strconv.Quote("verif.local/simrt")}}
		done := false
		for _, d := range f.Decls {
			if gd, ok := d.(*ast.GenDecl); ok && gd.Tok == token.IMPORT {
				gd.Specs = append(gd.Specs, spec)
				if !gd.Lparen.IsValid() {
					gd.Lparen = gd.Pos()
					gd.Rparen = gd.End()
				}
				done = true
				break
			}
		}
		if !done {
			return 0, fmt.Errorf("%s: no import declaration to extend", path)
		}
		f.Imports = append(f.Imports, spec)
	}
	var buf bytes.Buffer
	if err := printer.Fprint(&buf, fset, f); err != nil {
		return 0, err
	}
	return n, os.WriteFile(path, buf.Bytes(), 0o644)
}

// prepare builds the scratch tree: a rewritten copy of /repo's current working
// tree, the simulator runtime and the harness.
func prepare(scratch string) (rewriteStats, error) {
	var st rewriteStats
	sig := filepath.Join(scratch, "signal")
	err := copyTree(repoDir, sig, func(rel string, d fs.DirEntry) bool {
		base := filepath.Base(rel)
		if d.IsDir() {
			return !strings.HasPrefix(base, ".") && base != "testdata" && base != "vendor"
		}
		if base == "go.mod" || base == "go.sum" {
			return true
		}
		return strings.HasSuffix(base, ".go") && !strings.HasSuffix(base, "_test.go")
	})
	if err != nil {
		return st, err
	}
	err = filepath.WalkDir(sig, func(p string, d fs.DirEntry, err error) error {
		if err != nil || d.IsDir() || !strings.HasSuffix(p, ".go") {
			return err
		}
		st.Files++
		n, err := rewritePool(p)
		st.Rewritten += n
		return err
	})
	if err != nil {
		return st, err
	}
	gm, err := os.ReadFile(filepath.Join(sig, "go.mod"))
	if err != nil {
		return st, err
	}
	gm = append(gm, []byte("\nrequire verif.local/simrt v0.0.0\n\nreplace verif.local/simrt => ../simrt\n")...)
	if err := os.WriteFile(filepath.Join(sig, "go.mod"), gm, 0o644); err != nil {
		return st, err
	}
	all := func(rel string, d fs.DirEntry) bool { return true }
	if err := copyTree(filepath.Join(verifDir, "sim", "simrt"), filepath.Join(scratch, "simrt"), all); err != nil {
		return st, err
	}
	if err := copyTree(filepath.Join(verifDir, "sim", "harness"), filepath.Join(scratch, "harness"), all); err != nil {
		return st, err
	}
	if _, err := os.Stat(filepath.Join(sig, "go.sum")); err == nil {
		if err := copyFile(filepath.Join(sig, "go.sum"), filepath.Join(scratch, "harness", "go.sum")); err != nil {
			return st, err
		}
	}
	return st, nil
}

// buildWorker compiles the worker in the scratch tree.
func buildWorker(scratch string, race bool) (string, error) {
	out := filepath.Join(scratch, "worker")
	args := []string{"build"}
	if race {
		args = append(args, "-race")
		out += "-race"
	}
	args = append(args, "-o", out, ".")
	cmd := exec.Command("go", args...)
	cmd.Dir = filepath.Join(scratch, "harness")
	cmd.Env = goEnv()
	var buf bytes.Buffer
	cmd.Stdout, cmd.Stderr = &buf, &buf
	if err := cmd.Run(); err != nil {
		return "", fmt.Errorf("go %s: %v\n%s", strings.Join(args, " "), err, buf.String())
	}
	return out, nil
}
