package main

import (
	"bytes"
	"encoding/json"
	"fmt"
	"go/ast"
	"go/importer"
	"go/parser"
	"go/printer"
	"go/token"
	"go/types"
	"io"
	"io/fs"
	"os"
	"os/exec"
	"path/filepath"
	"reflect"
	"regexp"
	"strconv"
	"strings"
)

// repoDir is the tree under test (VERIF_REPO overrides it, for background
// runs against a snapshot).
var repoDir = func() string {
	if d := os.Getenv("VERIF_REPO"); d != "" {
		return d
	}
	return "/repo"
}()

// verifDir is where the simulator sources, evidence and replays live
// (VERIF_DIR, set by verif.sh to its own directory).
var verifDir = func() string {
	if d := os.Getenv("VERIF_DIR"); d != "" {
		return d
	}
	return "/verif"
}()

func goEnv() []string {
	env := os.Environ()
	env = append(env, "GOFLAGS=-mod=mod", "GOPROXY=off", "GOSUMDB=off", "GOTOOLCHAIN=local")
	return env
}

func copyFile(src, dst string) error {
	in, err := os.Open(src)
	if err != nil {
		return err
	}
	defer in.Close()
	if err := os.MkdirAll(filepath.Dir(dst), 0o755); err != nil {
		return err
	}
	out, err := os.Create(dst)
	if err != nil {
		return err
	}
	if _, err := io.Copy(out, in); err != nil {
		out.Close()
		return err
	}
	return out.Close()
}

func copyTree(src, dst string, keep func(rel string, d fs.DirEntry) bool) error {
	return filepath.WalkDir(src, func(p string, d fs.DirEntry, err error) error {
		if err != nil {
			return err
		}
		rel, _ := filepath.Rel(src, p)
		if rel == "." {
			return nil
		}
		if !keep(rel, d) {
			if d.IsDir() {
				return filepath.SkipDir
			}
			return nil
		}
		if d.IsDir() {
			return os.MkdirAll(filepath.Join(dst, rel), 0o755)
		}
		return copyFile(p, filepath.Join(dst, rel))
	})
}

// rewriteStats says what the sync.Pool -> simrt.Pool rewrite did.
type rewriteStats struct {
	Files      int
	Rewritten  int // selector expressions replaced
	Points     int // inner yield points inserted
	PointNames []string
}

// rewriteDir applies the source transformations to one package directory of
// the scratch copy:
//
//  1. every reference to sync.Pool is re-pointed to the stub simrt.Pool;
//  2. inner yield points: simrt.Point() before every statement of every
//     function body;
//  3. blocking operations become cooperative (so that a task that cannot
//     proceed hands control back to the scheduler instead of parking inside
//     the Go runtime): sync.Mutex/RWMutex Lock/RLock, sync.Locker.Lock,
//     sync.Cond.Wait, channel send/receive/range, blocking select;
//     once.Do is bracketed (no inner pre-emption while it runs);
//  4. "go f()" becomes simrt.Spawn (the goroutine is a simulated task);
//  5. time.Now/Since/Until/Sleep/After/Tick read the simulated clock.
//
// Rules 3 and 5 need type information (go/types with the source importer,
// offline); if the package does not type-check, rule 3 degrades to
// name-based bracketing of x.Lock()/x.Unlock() and rule 5 is skipped.
func rewriteDir(dir string) (poolRefs, points int, err error) {
	defer func() {
		if r := recover(); r != nil {
			err = fmt.Errorf("rewriter panicked on %s: %v", dir, r)
		}
	}()
	ents, err := os.ReadDir(dir)
	if err != nil {
		return 0, 0, err
	}
	fset := token.NewFileSet()
	var files []*ast.File
	var paths []string
	for _, e := range ents {
		if e.IsDir() || !strings.HasSuffix(e.Name(), ".go") {
			continue
		}
		p := filepath.Join(dir, e.Name())
		f, err := parser.ParseFile(fset, p, nil, parser.ParseComments)
		if err != nil {
			return 0, 0, err
		}
		files = append(files, f)
		paths = append(paths, p)
	}
	if len(files) == 0 {
		return 0, 0, nil
	}
	filesSeen += len(files)
	info := &types.Info{Types: map[ast.Expr]types.TypeAndValue{}, Selections: map[*ast.SelectorExpr]*types.Selection{}, Uses: map[*ast.Ident]types.Object{}}
	typed := true
	conf := types.Config{Importer: importer.ForCompiler(fset, "source", nil), Error: func(error) { typed = false }}
	func() {
		defer func() {
			if recover() != nil {
				typed = false
			}
		}()
		wd, _ := os.Getwd()
		os.Chdir(dir)
		defer os.Chdir(wd)
		conf.Check("scratch/"+filepath.Base(dir), fset, files, info)
	}()
	src := map[string][]byte{}
	for _, p := range paths {
		if data, err := os.ReadFile(p); err == nil {
			src[p] = data
		}
	}
	rw := &rewriter{info: info, typed: typed && os.Getenv("VERIF_NO_TYPES") == "" && rewriteLevel >= 2, fset: fset, points: &pointTable, src: src, lines: map[int]int{}}
	for i, f := range files {
		n, pts, err := rw.file(fset, f, paths[i])
		if err != nil {
			return 0, 0, err
		}
		poolRefs += n
		points += pts
	}
	return poolRefs, points, nil
}

var filesSeen int

// rewriteLevel: 2 = everything (type-aware), 1 = inner points and name-based
// lock bracketing only, 0 = only sync.Pool is re-pointed. buildFor steps down
// when the rewriter fails or the rewritten tree does not compile, so that a
// construct the rewriter mishandles degrades the exploration instead of
// breaking the check.
var rewriteLevel = 2

// pointTable names the inner yield points of the current scratch build.
var pointTable = []string{""}

type rewriter struct {
	info   *types.Info
	typed  bool
	n      int
	fset   *token.FileSet
	points *[]string   // id -> "file:line statement" (index 0 unused)
	lines  map[int]int // id -> line of the statement in the original file
	src    map[string][]byte
}

// point returns the inner yield point standing before statement s, numbered
// so that traces and the reach measure can name the statement.
func (rw *rewriter) point(s ast.Stmt) ast.Stmt {
	pos := rw.fset.Position(s.Pos())
	text := ""
	if src, ok := rw.src[pos.Filename]; ok && pos.Offset < len(src) {
		end := rw.fset.Position(s.End()).Offset
		if end > len(src) {
			end = len(src)
		}
		if end <= pos.Offset { // the statement ends in a node synthesised by an earlier rewrite
			end = pos.Offset
			for end < len(src) && src[end] != '\n' {
				end++
			}
		}
		text = string(src[pos.Offset:end])
		if i := strings.IndexByte(text, '\n'); i >= 0 {
			text = text[:i] + " ..."
		}
		if len(text) > 60 {
			text = text[:60] + "..."
		}
	}
	*rw.points = append(*rw.points, fmt.Sprintf("%s:%d `%s`", filepath.Base(pos.Filename), pos.Line, text))
	id := len(*rw.points) - 1
	if rw.lines != nil {
		rw.lines[id] = pos.Line
	}
	return &ast.ExprStmt{X: &ast.CallExpr{Fun: simrtFn("PointAt"), Args: []ast.Expr{&ast.BasicLit{Kind: token.INT, Value: strconv.Itoa(id)}}}}
}

func (rw *rewriter) file(fset *token.FileSet, f *ast.File, path string) (poolRefs, points int, err error) {
	syncName := ""
	var syncSpec *ast.ImportSpec
	haveSimrt := false
	for _, is := range f.Imports {
		p, _ := strconv.Unquote(is.Path.Value)
		if p == "sync" {
			syncName = "sync"
			if is.Name != nil {
				syncName = is.Name.Name
			}
			syncSpec = is
		}
		if p == "verif.local/simrt" {
			haveSimrt = true
		}
	}
	others, mapRefs := 0, 0
	if syncSpec != nil && syncName != "_" && syncName != "." {
		ast.Inspect(f, func(node ast.Node) bool {
			sel, ok := node.(*ast.SelectorExpr)
			if !ok {
				return true
			}
			id, ok := sel.X.(*ast.Ident)
			if !ok || id.Name != syncName || id.Obj != nil {
				return true
			}
			if sel.Sel.Name == "Pool" {
				id.Name = "simrt"
				poolRefs++
			} else if sel.Sel.Name == "Map" && rewriteLevel >= 1 {
				// sync.Map -> simrt.SyncMap: Range order from the tape, a yield
				// point after every operation (simrt/syncmap.go)
				id.Name = "simrt"
				sel.Sel.Name = "SyncMap"
				mapRefs++
			} else {
				others++
			}
			return true
		})
	}
	var touched map[string]bool
	if os.Getenv("VERIF_NO_INNER") == "" && rewriteLevel >= 1 {
		if rw.typed {
			touched = rw.retime(f)
			rw.recvExprs(f)
		}
		points = rw.instrument(f)
	}
	if poolRefs == 0 && mapRefs == 0 && points == 0 {
		return 0, 0, nil
	}
	if !haveSimrt {
		if syncSpec != nil && poolRefs+mapRefs > 0 && others == 0 {
			// sync is no longer used: turn its import into the simrt import.
			syncSpec.Path.Value = strconv.Quote("verif.local/simrt")
			syncSpec.Name = ast.NewIdent("simrt")
		} else {
			spec := &ast.ImportSpec{Name: ast.NewIdent("simrt"), Path: &ast.BasicLit{Kind: token.STRING, Value: strconv.Quote("verif.local/simrt")}}
			gd := &ast.GenDecl{Tok: token.IMPORT, Specs: []ast.Spec{spec}}
			at := 0
			for i, d := range f.Decls {
				if g, ok := d.(*ast.GenDecl); ok && g.Tok == token.IMPORT {
					at = i + 1
				}
			}
			f.Decls = append(f.Decls[:at], append([]ast.Decl{gd}, f.Decls[at:]...)...)
			f.Imports = append(f.Imports, spec)
		}
	}
	for _, is := range f.Imports {
		// keep re-pointed imports used whatever was replaced
		p, _ := strconv.Unquote(is.Path.Value)
		name := filepath.Base(p)
		if len(name) >= 2 && name[0] == 'v' && name[1] >= '0' && name[1] <= '9' {
			name = filepath.Base(filepath.Dir(p)) // math/rand/v2 is package rand
		}
		if is.Name != nil {
			name = is.Name.Name
		}
		if !touched[name] {
			continue
		}
		keep := map[string]string{"time": "Nanosecond", "runtime": "GOOS", "sync": "NewCond", "math/rand": "NewSource", "math/rand/v2": "NewPCG"}[p]
		if keep == "" {
			continue
		}
		f.Decls = append(f.Decls, &ast.GenDecl{Tok: token.VAR, Specs: []ast.Spec{&ast.ValueSpec{
			Names: []*ast.Ident{ast.NewIdent("_")}, Values: []ast.Expr{&ast.SelectorExpr{X: ast.NewIdent(name), Sel: ast.NewIdent(keep)}}}}})
	}
	var buf bytes.Buffer
	f.Comments = nil
	if err := printer.Fprint(&buf, fset, f); err != nil {
		return 0, 0, err
	}
	return poolRefs, points, os.WriteFile(path, relineate(buf.Bytes(), filepath.Base(path), rw.lines), 0o644)
}

var pointLine = regexp.MustCompile(`^\s*simrt\.PointAt\((\d+)\)\s*$`)

// relineate inserts a //line directive after every inner yield point, so that
// the statement that follows is attributed to its line in the original file:
// race reports and stack traces of the scratch copy then quote /repo's line
// numbers (the path is still the scratch copy's).
func relineate(src []byte, file string, lines map[int]int) []byte {
	var out bytes.Buffer
	pending := 0
	for _, l := range bytes.SplitAfter(src, []byte("\n")) {
		if pending > 0 && len(bytes.TrimSpace(l)) > 0 {
			fmt.Fprintf(&out, "//line %s:%d\n", file, pending)
			pending = 0
		}
		out.Write(l)
		if m := pointLine.FindSubmatch(bytes.TrimRight(l, "\n")); m != nil {
			id, _ := strconv.Atoi(string(m[1]))
			if n, ok := lines[id]; ok {
				pending = n
			}
		}
	}
	return out.Bytes()
}

func simrtFn(name string) ast.Expr {
	return &ast.SelectorExpr{X: ast.NewIdent("simrt"), Sel: ast.NewIdent(name)}
}

func simrtCall(name string, args ...ast.Expr) ast.Stmt {
	return &ast.ExprStmt{X: &ast.CallExpr{Fun: simrtFn(name), Args: args}}
}

// retime re-points time.Now/Since/Until/Sleep/After/Tick to the simulated
// clock, and runtime.SetFinalizer/Gosched to their simulated counterparts. It
// returns the packages whose import must be kept alive artificially.
func (rw *rewriter) retime(f *ast.File) map[string]bool {
	touched := map[string]bool{}
	ast.Inspect(f, func(node ast.Node) bool {
		sel, ok := node.(*ast.SelectorExpr)
		if !ok {
			return true
		}
		id, ok := sel.X.(*ast.Ident)
		if !ok {
			return true
		}
		pn, ok := rw.info.Uses[id].(*types.PkgName)
		if !ok {
			return true
		}
		switch pn.Imported().Path() {
		case "time":
			switch sel.Sel.Name {
			case "Now", "Since", "Until", "Sleep", "After", "Tick", "NewTimer", "AfterFunc", "NewTicker":
				touched[id.Name] = true
				id.Name = "simrt"
			}
		case "runtime":
			switch sel.Sel.Name {
			case "SetFinalizer", "Gosched", "GOMAXPROCS", "NumCPU":
				touched[id.Name] = true
				id.Name = "simrt"
			}
		case "sync":
			switch sel.Sel.Name {
			case "OnceFunc", "OnceValue", "OnceValues":
				// like once.Do(f): no inner yield while f runs, or a second caller
				// would park inside the real sync.Once
				touched[id.Name] = true
				id.Name = "simrt"
			}
		case "math/rand", "math/rand/v2":
			switch sel.Sel.Name {
			case "Int", "Intn", "Int31", "Int31n", "Int63", "Int63n", "Uint32", "Uint64", "Float64", "Float32", "Seed", "Shuffle", "Perm",
				"IntN", "Int64N", "Int32N", "Uint32N", "Uint64N", "UintN", "Int64", "Int32":
				touched[id.Name] = true
				id.Name = "simrt"
				sel.Sel = ast.NewIdent("Rand" + sel.Sel.Name)
			}
		}
		return true
	})
	return touched
}

func (rw *rewriter) isChan(e ast.Expr) bool {
	if !rw.typed {
		return false
	}
	t := rw.info.TypeOf(e)
	if t == nil {
		return false
	}
	_, ok := t.Underlying().(*types.Chan)
	return ok
}

func (rw *rewriter) isMap(e ast.Expr) bool {
	if !rw.typed {
		return false
	}
	t := rw.info.TypeOf(e)
	if t == nil {
		return false
	}
	_, ok := t.Underlying().(*types.Map)
	return ok
}

// ptrKeyed says whether the keys of the map expression contain pointers
// (their canonical order is the order in which the library stores them).
func (rw *rewriter) ptrKeyed(e ast.Expr) bool {
	if !rw.typed {
		return false
	}
	t := rw.info.TypeOf(e)
	if t == nil {
		return false
	}
	m, ok := t.Underlying().(*types.Map)
	if !ok {
		return false
	}
	var has func(t types.Type, depth int) bool
	has = func(t types.Type, depth int) bool {
		if depth > 6 {
			return false
		}
		switch u := t.Underlying().(type) {
		case *types.Pointer, *types.Chan, *types.Interface:
			return true
		case *types.Basic:
			return u.Kind() == types.UnsafePointer
		case *types.Struct:
			for i := 0; i < u.NumFields(); i++ {
				if has(u.Field(i).Type(), depth+1) {
					return true
				}
			}
		case *types.Array:
			return has(u.Elem(), depth+1)
		}
		return false
	}
	return has(m.Key(), 0)
}

// pureExpr: evaluating the expression twice is harmless.
func pureExpr(e ast.Expr) bool {
	switch x := e.(type) {
	case *ast.Ident, *ast.BasicLit:
		return true
	case *ast.ParenExpr:
		return pureExpr(x.X)
	case *ast.SelectorExpr:
		return pureExpr(x.X)
	case *ast.StarExpr:
		return pureExpr(x.X)
	case *ast.UnaryExpr:
		return x.Op == token.AND && pureExpr(x.X)
	}
	return false
}

// oldLoopVars: the module's go directive is below 1.22, so a range statement
// declares its variables once per loop. The rewritten map range declares them
// once per iteration; the difference can only be observed by a function
// literal in the body, and such loops are left as they are.
var oldLoopVars bool

func hasFuncLit(n ast.Node) bool {
	found := false
	ast.Inspect(n, func(c ast.Node) bool {
		if _, ok := c.(*ast.FuncLit); ok {
			found = true
		}
		return !found
	})
	return found
}

// terminating implements the language specification's "terminating statement"
// (syntactically): the rewritten form of a select that was terminating must be
// terminating too, or the function it ends no longer compiles.
func terminating(s ast.Stmt) bool {
	switch st := s.(type) {
	case *ast.ReturnStmt:
		return true
	case *ast.BranchStmt:
		return st.Tok == token.GOTO
	case *ast.ExprStmt:
		if call, ok := st.X.(*ast.CallExpr); ok {
			if id, ok := call.Fun.(*ast.Ident); ok && id.Name == "panic" {
				return true
			}
		}
	case *ast.BlockStmt:
		return len(st.List) > 0 && terminating(st.List[len(st.List)-1])
	case *ast.IfStmt:
		return st.Else != nil && terminating(st.Body) && terminating(st.Else)
	case *ast.ForStmt:
		return st.Cond == nil && !breaksOut(st.Body.List)
	case *ast.LabeledStmt:
		// a "break L" anywhere inside leaves the labelled statement (the loops
		// this rewriter generates are left that way)
		leaves := false
		ast.Inspect(st.Stmt, func(n ast.Node) bool {
			if b, ok := n.(*ast.BranchStmt); ok && b.Tok == token.BREAK && b.Label != nil && b.Label.Name == st.Label.Name {
				leaves = true
			}
			return !leaves
		})
		return !leaves && terminating(st.Stmt)
	case *ast.SwitchStmt, *ast.TypeSwitchStmt:
		var body *ast.BlockStmt
		if sw, ok := st.(*ast.SwitchStmt); ok {
			body = sw.Body
		} else {
			body = st.(*ast.TypeSwitchStmt).Body
		}
		hasDefault := false
		for _, c := range body.List {
			cc := c.(*ast.CaseClause)
			if cc.List == nil {
				hasDefault = true
			}
			if breaksOut(cc.Body) {
				return false
			}
			if len(cc.Body) == 0 {
				return false
			}
			last := cc.Body[len(cc.Body)-1]
			if b, ok := last.(*ast.BranchStmt); ok && b.Tok == token.FALLTHROUGH {
				continue
			}
			if !terminating(last) {
				return false
			}
		}
		return hasDefault
	case *ast.SelectStmt:
		for _, c := range st.Body.List {
			cc := c.(*ast.CommClause)
			if breaksOut(cc.Body) || len(cc.Body) == 0 || !terminating(cc.Body[len(cc.Body)-1]) {
				return false
			}
		}
		return true
	}
	return false
}

// breaksOut: an unlabelled break in stmts refers to the enclosing statement
// (labelled breaks are not tracked: the caller excludes labelled statements).
func breaksOut(stmts []ast.Stmt) bool {
	found := false
	for _, s := range stmts {
		ast.Inspect(s, func(n ast.Node) bool {
			switch b := n.(type) {
			case *ast.ForStmt, *ast.RangeStmt, *ast.SwitchStmt, *ast.TypeSwitchStmt, *ast.SelectStmt, *ast.FuncLit:
				return false
			case *ast.BranchStmt:
				if b.Tok == token.BREAK && b.Label == nil {
					found = true
				}
			}
			return !found
		})
	}
	return found
}

func unreachable() ast.Stmt {
	return &ast.ExprStmt{X: &ast.CallExpr{Fun: ast.NewIdent("panic"), Args: []ast.Expr{&ast.BasicLit{Kind: token.STRING, Value: `"simrt: unreachable (the select statement rewritten here was terminating)"`}}}}
}

func isBlank(e ast.Expr) bool {
	id, ok := e.(*ast.Ident)
	return e == nil || (ok && id.Name == "_")
}

// recvExprs replaces every receive expression "<-ch" outside the
// communication clauses of select statements by simrt.Recv(ch).
func (rw *rewriter) recvExprs(f *ast.File) {
	protected := map[ast.Node]bool{}
	ast.Inspect(f, func(n ast.Node) bool {
		if cc, ok := n.(*ast.CommClause); ok && cc.Comm != nil {
			ast.Inspect(cc.Comm, func(m ast.Node) bool {
				if m != nil {
					protected[m] = true
				}
				return true
			})
		}
		return true
	})
	exprT := reflect.TypeOf((*ast.Expr)(nil)).Elem()
	wrapped := map[*ast.CallExpr]bool{}
	fix := func(e ast.Expr) ast.Expr {
		if call, ok := e.(*ast.CallExpr); ok && !protected[call] && !wrapped[call] && rw.atomicCall(call) {
			wrapped[call] = true
			// x.Load() -> simrt.AfterOp(x.Load()): an inner yield point right after
			// the atomic operation, so that a window between two atomic
			// operations of ONE statement can be reached too
			return &ast.CallExpr{Fun: simrtFn("AfterOp"), Args: []ast.Expr{call}}
		}
		u, ok := e.(*ast.UnaryExpr)
		if !ok || u.Op != token.ARROW || protected[u] || !rw.isChan(u.X) {
			return e
		}
		return &ast.CallExpr{Fun: simrtFn("Recv"), Args: []ast.Expr{u.X}}
	}
	ast.Inspect(f, func(n ast.Node) bool {
		if n == nil || protected[n] {
			return !protected[n]
		}
		if call, ok := n.(*ast.CallExpr); ok {
			if sel, ok := call.Fun.(*ast.SelectorExpr); ok {
				if si := rw.info.Selections[sel]; si != nil {
					if fn, ok := si.Obj().(*types.Func); ok && fn.Pkg() != nil && (fn.Pkg().Path() == "time" || fn.Pkg().Path() == "sync") {
						name := map[string]string{"(*time.Timer).Stop": "TimerStop", "(*time.Timer).Reset": "TimerReset",
							"(*time.Ticker).Stop": "TickerStop", "(*time.Ticker).Reset": "TickerReset",
							"(*sync.WaitGroup).Add": "WGAdd", "(*sync.WaitGroup).Done": "WGDone", "(*sync.WaitGroup).Wait": "WGWait"}[fn.FullName()]
						if cn := map[string]string{"(*sync.Cond).Wait": "CondWaitOn", "(*sync.Cond).Signal": "CondSignal", "(*sync.Cond).Broadcast": "CondBroadcast"}[fn.FullName()]; cn != "" {
							name = cn
						}
						if name != "" {
							// The receiver, spelled out: a method promoted from an
							// embedded field (p.Wait() with a sync.Cond embedded in p's
							// type) is reached through the fields on the selection's path.
							var recv ast.Expr = sel.X
							rt := rw.info.TypeOf(sel.X)
							path := si.Index()
							for _, ix := range path[:len(path)-1] {
								if pt, isPtr := rt.Underlying().(*types.Pointer); isPtr {
									rt = pt.Elem()
								}
								st, isStruct := rt.Underlying().(*types.Struct)
								if !isStruct || ix >= st.NumFields() {
									name = ""
									break
								}
								recv = &ast.SelectorExpr{X: recv, Sel: ast.NewIdent(st.Field(ix).Name())}
								rt = st.Field(ix).Type()
							}
							if name == "" {
								return true
							}
							if _, isPtr := rt.Underlying().(*types.Pointer); !isPtr {
								recv = &ast.UnaryExpr{Op: token.AND, X: recv}
							}
							call.Fun = simrtFn(name)
							call.Args = append([]ast.Expr{recv}, call.Args...)
						}
					}
				}
			}
		}
		if as, ok := n.(*ast.AssignStmt); ok && len(as.Lhs) == 2 && len(as.Rhs) == 1 {
			if u, ok := as.Rhs[0].(*ast.UnaryExpr); ok && u.Op == token.ARROW && rw.isChan(u.X) {
				as.Rhs[0] = &ast.CallExpr{Fun: simrtFn("Recv2"), Args: []ast.Expr{u.X}}
				return true
			}
		}
		if vs, ok := n.(*ast.ValueSpec); ok && len(vs.Names) == 2 && len(vs.Values) == 1 {
			if u, ok := vs.Values[0].(*ast.UnaryExpr); ok && u.Op == token.ARROW && rw.isChan(u.X) {
				vs.Values[0] = &ast.CallExpr{Fun: simrtFn("Recv2"), Args: []ast.Expr{u.X}}
				return true
			}
		}
		v := reflect.ValueOf(n)
		if v.Kind() != reflect.Ptr || v.IsNil() {
			return true
		}
		v = v.Elem()
		if v.Kind() != reflect.Struct {
			return true
		}
		for i := 0; i < v.NumField(); i++ {
			fl := v.Field(i)
			switch {
			case fl.Type() == exprT && !fl.IsNil():
				if ne := fix(fl.Interface().(ast.Expr)); ne != fl.Interface().(ast.Expr) {
					fl.Set(reflect.ValueOf(ne))
				}
			case fl.Kind() == reflect.Slice && fl.Type().Elem() == exprT:
				for j := 0; j < fl.Len(); j++ {
					el := fl.Index(j)
					if el.IsNil() {
						continue
					}
					if ne := fix(el.Interface().(ast.Expr)); ne != el.Interface().(ast.Expr) {
						el.Set(reflect.ValueOf(ne))
					}
				}
			}
		}
		return true
	})
}

// atomicCall reports whether call invokes a function or method of sync/atomic
// that returns exactly one value.
func (rw *rewriter) atomicCall(call *ast.CallExpr) bool {
	var fn *types.Func
	switch f := call.Fun.(type) {
	case *ast.SelectorExpr:
		if si := rw.info.Selections[f]; si != nil {
			fn, _ = si.Obj().(*types.Func)
		} else {
			fn, _ = rw.info.Uses[f.Sel].(*types.Func)
		}
	case *ast.Ident:
		fn, _ = rw.info.Uses[f].(*types.Func)
	}
	if fn == nil || fn.Pkg() == nil || fn.Pkg().Path() != "sync/atomic" {
		return false
	}
	sig, ok := fn.Type().(*types.Signature)
	return ok && sig.Results().Len() == 1
}

// syncMethod returns the full name of the sync method a call invokes, e.g.
// "(*sync.Mutex).Lock", or "" (typed mode only).
func (rw *rewriter) syncMethod(e ast.Expr) (string, *ast.SelectorExpr) {
	call, ok := e.(*ast.CallExpr)
	if !ok {
		return "", nil
	}
	sel, ok := call.Fun.(*ast.SelectorExpr)
	if !ok {
		return "", nil
	}
	if !rw.typed {
		return "", sel
	}
	si := rw.info.Selections[sel]
	if si == nil {
		return "", sel
	}
	fn, ok := si.Obj().(*types.Func)
	if !ok || fn.Pkg() == nil || fn.Pkg().Path() != "sync" {
		return "", sel
	}
	return fn.FullName(), sel
}

// lockKind classifies a call by method name only (untyped fallback): +1
// acquires, -1 releases, 2 = once.Do style.
func lockKind(e ast.Expr) int {
	call, ok := e.(*ast.CallExpr)
	if !ok {
		return 0
	}
	sel, ok := call.Fun.(*ast.SelectorExpr)
	if !ok {
		return 0
	}
	switch sel.Sel.Name {
	case "Lock", "RLock":
		if len(call.Args) == 0 {
			return 1
		}
	case "Unlock", "RUnlock":
		if len(call.Args) == 0 {
			return -1
		}
	case "Do":
		if len(call.Args) == 1 {
			return 2
		}
	}
	return 0
}

// replaceContinues replaces every unlabelled continue that binds outside
// stmts (not inside a nested loop or function literal) by mk().
func replaceContinues(stmts []ast.Stmt, mk func() ast.Stmt) {
	var in func(s ast.Stmt)
	list := func(l []ast.Stmt) {
		for i, s := range l {
			if b, ok := s.(*ast.BranchStmt); ok && b.Tok == token.CONTINUE && b.Label == nil {
				l[i] = mk()
				continue
			}
			in(s)
		}
	}
	in = func(s ast.Stmt) {
		switch st := s.(type) {
		case *ast.BlockStmt:
			list(st.List)
		case *ast.IfStmt:
			list(st.Body.List)
			if st.Else != nil {
				in(st.Else)
			}
		case *ast.SwitchStmt:
			for _, c := range st.Body.List {
				list(c.(*ast.CaseClause).Body)
			}
		case *ast.TypeSwitchStmt:
			for _, c := range st.Body.List {
				list(c.(*ast.CaseClause).Body)
			}
		case *ast.SelectStmt:
			for _, c := range st.Body.List {
				list(c.(*ast.CommClause).Body)
			}
		case *ast.LabeledStmt:
			in(st.Stmt)
		}
	}
	list(stmts)
}

func hasUnlabeledContinue(stmts []ast.Stmt) bool {
	found := false
	for _, s := range stmts {
		ast.Inspect(s, func(n ast.Node) bool {
			switch b := n.(type) {
			case *ast.ForStmt, *ast.RangeStmt, *ast.FuncLit:
				return false // continue inside binds to the inner loop
			case *ast.BranchStmt:
				if (b.Tok == token.CONTINUE || b.Tok == token.BREAK) && b.Label == nil {
					if b.Tok == token.CONTINUE {
						found = true
					}
				}
			}
			return true
		})
	}
	return found
}

// instrument inserts the inner yield points and the cooperative forms.
func (rw *rewriter) instrument(f *ast.File) int {
	n := 0
	var list func(stmts []ast.Stmt) []ast.Stmt
	var walk func(node ast.Node)
	labelled := false // the statement being rewritten carries a label (break L / continue L must keep working)
	methodValue := func(sel *ast.SelectorExpr, name string) ast.Expr {
		return &ast.SelectorExpr{X: sel.X, Sel: ast.NewIdent(name)}
	}
	rewriteStmt := func(s ast.Stmt) []ast.Stmt {
		switch st := s.(type) {
		case *ast.ExprStmt:
			if full, sel := rw.syncMethod(st.X); full != "" {
				switch full {
				case "(*sync.Mutex).Lock", "(*sync.RWMutex).Lock":
					return []ast.Stmt{simrtCall("CoopLock", methodValue(sel, "TryLock"), methodValue(sel, "Lock"))}
				case "(*sync.RWMutex).RLock":
					return []ast.Stmt{simrtCall("CoopLock", methodValue(sel, "TryRLock"), methodValue(sel, "RLock"))}
				case "(sync.Locker).Lock":
					return []ast.Stmt{simrtCall("LockLocker", sel.X)}
				case "(sync.Locker).Unlock":
					return []ast.Stmt{simrtCall("Unlocking"), s}
				case "(*sync.Cond).Wait":
					return []ast.Stmt{simrtCall("CondWaitWith", methodValue(sel, "Wait"), &ast.SelectorExpr{X: sel.X, Sel: ast.NewIdent("L")})}
				case "(*sync.Once).Do":
					return []ast.Stmt{simrtCall("Locked"), s, simrtCall("Unlocking")}
				}
				return []ast.Stmt{s}
			}
			if !rw.typed {
				switch lockKind(st.X) {
				case 1:
					return []ast.Stmt{s, simrtCall("Locked")}
				case -1:
					return []ast.Stmt{simrtCall("Unlocking"), s}
				case 2:
					return []ast.Stmt{simrtCall("Locked"), s, simrtCall("Unlocking")}
				}
			}
		case *ast.SendStmt:
			if rw.isChan(st.Chan) {
				return []ast.Stmt{&ast.ExprStmt{X: &ast.CallExpr{Fun: &ast.CallExpr{Fun: simrtFn("SendTo"), Args: []ast.Expr{st.Chan}}, Args: []ast.Expr{st.Value}}}}
			}
		case *ast.DeferStmt:
			full, _ := rw.syncMethod(st.Call)
			if full == "(sync.Locker).Unlock" || (!rw.typed && lockKind(st.Call) == -1) {
				body := &ast.BlockStmt{List: []ast.Stmt{simrtCall("Unlocking"), &ast.ExprStmt{X: st.Call}}}
				st.Call = &ast.CallExpr{Fun: &ast.FuncLit{Type: &ast.FuncType{Params: &ast.FieldList{}}, Body: body}}
			}
		case *ast.RangeStmt:
			if rw.isChan(st.X) {
				// for k := range ch { body }  ->  for { k, ok := simrt.Recv2(ch); if !ok { break }; body }
				ok := ast.NewIdent("simrtOk" + strconv.Itoa(n))
				n++
				var key ast.Expr = ast.NewIdent("_")
				tok := token.DEFINE
				if st.Key != nil {
					key = st.Key
					tok = st.Tok
				}
				var pre []ast.Stmt
				if tok == token.ASSIGN {
					pre = append(pre, &ast.DeclStmt{Decl: &ast.GenDecl{Tok: token.VAR, Specs: []ast.Spec{&ast.ValueSpec{Names: []*ast.Ident{ok}, Type: ast.NewIdent("bool")}}}})
				}
				recv := &ast.AssignStmt{Lhs: []ast.Expr{key, ok}, Tok: tok, Rhs: []ast.Expr{&ast.CallExpr{Fun: simrtFn("Recv2"), Args: []ast.Expr{st.X}}}}
				brk := &ast.IfStmt{Cond: &ast.UnaryExpr{Op: token.NOT, X: ok}, Body: &ast.BlockStmt{List: []ast.Stmt{&ast.BranchStmt{Tok: token.BREAK}}}}
				body := &ast.BlockStmt{List: append(append(pre, recv, brk), st.Body.List...)}
				return []ast.Stmt{&ast.ForStmt{Body: body}}
			}
			if rw.isMap(st.X) && !(isBlank(st.Key) && isBlank(st.Value)) && !(oldLoopVars && st.Tok == token.DEFINE && hasFuncLit(st.Body)) {
				// for k, v := range m { body }  ->  the keys present now, in an
				// order the tape decides (simrt.MapKeys); see simrt/maporder.go
				id := strconv.Itoa(n)
				n++
				m, key, val, ok := ast.NewIdent("simrtMap"+id), ast.NewIdent("simrtKey"+id), ast.NewIdent("simrtVal"+id), ast.NewIdent("simrtOk"+id)
				pre := &ast.AssignStmt{Lhs: []ast.Expr{m}, Tok: token.DEFINE, Rhs: []ast.Expr{st.X}}
				lookupLhs := []ast.Expr{ast.NewIdent("_"), ok}
				if !isBlank(st.Value) {
					lookupLhs[0] = val
				}
				lookup := &ast.AssignStmt{Lhs: lookupLhs, Tok: token.DEFINE, Rhs: []ast.Expr{&ast.IndexExpr{X: m, Index: key}}}
				skip := &ast.IfStmt{Cond: &ast.UnaryExpr{Op: token.NOT, X: ok}, Body: &ast.BlockStmt{List: []ast.Stmt{&ast.BranchStmt{Tok: token.CONTINUE}}}}
				prefix := []ast.Stmt{lookup, skip}
				var lhs, rhs []ast.Expr
				if !isBlank(st.Key) {
					lhs, rhs = append(lhs, st.Key), append(rhs, key)
				}
				if !isBlank(st.Value) {
					lhs, rhs = append(lhs, st.Value), append(rhs, val)
				}
				prefix = append(prefix, &ast.AssignStmt{Lhs: lhs, Tok: st.Tok, Rhs: rhs})
				st.Key, st.Value, st.Tok = ast.NewIdent("_"), key, token.DEFINE
				st.X = &ast.CallExpr{Fun: simrtFn("MapKeys"), Args: []ast.Expr{m}}
				st.Body.List = append(prefix, st.Body.List...)
				return []ast.Stmt{pre, st}
			}
		case *ast.AssignStmt:
			// m[k] = v with pointers in the key: number them in program order
			var notes []ast.Stmt
			for _, l := range st.Lhs {
				if ix, ok := l.(*ast.IndexExpr); ok && rw.ptrKeyed(ix.X) && pureExpr(ix.Index) {
					notes = append(notes, simrtCall("MapKey", ix.Index))
				}
			}
			if len(notes) > 0 {
				return append(notes, s)
			}
		case *ast.IncDecStmt:
			if ix, ok := st.X.(*ast.IndexExpr); ok && rw.ptrKeyed(ix.X) && pureExpr(ix.Index) {
				return []ast.Stmt{simrtCall("MapKey", ix.Index), s}
			}
		case *ast.SelectStmt:
			// a select without default blocks: add "default: Blocked()" and loop
			hasDefault := false
			var bodies []ast.Stmt
			for _, c := range st.Body.List {
				cc := c.(*ast.CommClause)
				if cc.Comm == nil {
					hasDefault = true
				}
				bodies = append(bodies, cc.Body...)
			}
			ncomm := len(st.Body.List)
			if hasDefault {
				ncomm--
			}
			ordered := ncomm >= 1 // every select with a communication case is polled case by case (order from the tape when there are several)
			term := terminating(st)
			if rw.typed && (!hasDefault || ordered) && !labelled && len(st.Body.List) > 0 {
				// The select now sits in a loop, but its channel operands and send
				// values must still be evaluated exactly once (a time.After in a
				// case would otherwise start a new timer at every retry).
				var pre []ast.Stmt
				// A "continue" in a case body would now bind to that loop: it
				// becomes "flag = true; break <our loop>", and "if flag { continue }"
				// follows the loop, where it binds to the caller's loop again.
				selID := strconv.Itoa(n)
				n++
				selLabel := ast.NewIdent("simrtSelLoop" + selID)
				var contFlag *ast.Ident
				if hasUnlabeledContinue(bodies) {
					contFlag = ast.NewIdent("simrtCont" + selID)
					pre = append(pre, &ast.AssignStmt{Lhs: []ast.Expr{contFlag}, Tok: token.DEFINE, Rhs: []ast.Expr{ast.NewIdent("false")}})
					for _, c := range st.Body.List {
						replaceContinues(c.(*ast.CommClause).Body, func() ast.Stmt {
							return &ast.BlockStmt{List: []ast.Stmt{
								&ast.AssignStmt{Lhs: []ast.Expr{contFlag}, Tok: token.ASSIGN, Rhs: []ast.Expr{ast.NewIdent("true")}},
								&ast.BranchStmt{Tok: token.BREAK, Label: selLabel},
							}}
						})
					}
				}
				after := func(out []ast.Stmt) []ast.Stmt {
					if contFlag != nil {
						out = append(out, &ast.IfStmt{Cond: contFlag, Body: &ast.BlockStmt{List: []ast.Stmt{&ast.BranchStmt{Tok: token.CONTINUE}}}})
					}
					if term {
						out = append(out, unreachable())
					}
					return out
				}
				hoist := func(e ast.Expr) ast.Expr {
					if id, ok := e.(*ast.Ident); ok && id.Name != "nil" {
						return e
					}
					tmp := ast.NewIdent("simrtSel" + strconv.Itoa(n))
					n++
					pre = append(pre, &ast.AssignStmt{Lhs: []ast.Expr{tmp}, Tok: token.DEFINE, Rhs: []ast.Expr{e}})
					return tmp
				}
				for _, c := range st.Body.List {
					switch cm := c.(*ast.CommClause).Comm.(type) {
					case *ast.SendStmt:
						cm.Chan = hoist(cm.Chan)
						cm.Value = hoist(cm.Value)
					case *ast.ExprStmt:
						if u, ok := cm.X.(*ast.UnaryExpr); ok && u.Op == token.ARROW {
							u.X = hoist(u.X)
						}
					case *ast.AssignStmt:
						if len(cm.Rhs) == 1 {
							if u, ok := cm.Rhs[0].(*ast.UnaryExpr); ok && u.Op == token.ARROW {
								u.X = hoist(u.X)
							}
						}
					}
				}
				if ordered {
					// simrtSelLoopN:
					// for try, start := 0, simrt.SelectStart(n); ; try++ {
					//	if try == n { <default body; break loop>  or  <blocked: yield, try = -1, continue> }
					//	switch (start + try) % n {
					//	case i: select { case COMM_i: BODY_i; default: continue }
					//	}
					//	break simrtSelLoopN
					// }
					id := selID
					label := selLabel
					try, start := ast.NewIdent("simrtTry"+id), ast.NewIdent("simrtStart"+id)
					nlit := &ast.BasicLit{Kind: token.INT, Value: strconv.Itoa(ncomm)}
					var none []ast.Stmt
					var cases []ast.Stmt
					var recvChans []ast.Expr // per case: the channel of a receive case, nil otherwise
					i := 0
					for _, c := range st.Body.List {
						cc := c.(*ast.CommClause)
						if cc.Comm == nil {
							none = append(append(none, cc.Body...), &ast.BranchStmt{Tok: token.BREAK, Label: label})
							continue
						}
						// one case: "if <non-blocking attempt> { body } else { continue }";
						// the attempts (simrt.TrySend/TryRecv) also complete the
						// rendezvous with a simulated task on an unbuffered channel
						next := &ast.BlockStmt{List: []ast.Stmt{&ast.BranchStmt{Tok: token.CONTINUE}}}
						var one ast.Stmt
						sfx := id + "_" + strconv.Itoa(i)
						got := ast.NewIdent("simrtGot" + sfx)
						tryRecv := func(u ast.Expr) ast.Expr {
							return &ast.CallExpr{Fun: simrtFn("TryRecv"), Args: []ast.Expr{u.(*ast.UnaryExpr).X}}
						}
						switch cm := cc.Comm.(type) {
						case *ast.SendStmt:
							recvChans = append(recvChans, ast.NewIdent("nil"))
							one = &ast.IfStmt{Cond: &ast.CallExpr{Fun: &ast.CallExpr{Fun: simrtFn("TrySender"), Args: []ast.Expr{cm.Chan}}, Args: []ast.Expr{cm.Value}}, Body: &ast.BlockStmt{List: cc.Body}, Else: next}
						case *ast.ExprStmt:
							x := cm.X
							for {
								if p, ok := x.(*ast.ParenExpr); ok {
									x = p.X
									continue
								}
								break
							}
							recvChans = append(recvChans, x.(*ast.UnaryExpr).X)
							one = &ast.IfStmt{
								Init: &ast.AssignStmt{Lhs: []ast.Expr{ast.NewIdent("_"), ast.NewIdent("_"), got}, Tok: token.DEFINE, Rhs: []ast.Expr{tryRecv(x)}},
								Cond: got, Body: &ast.BlockStmt{List: cc.Body}, Else: next}
						case *ast.AssignStmt:
							v, ok := ast.NewIdent("simrtV"+sfx), ast.NewIdent("_")
							rhs := []ast.Expr{v}
							if len(cm.Lhs) == 2 {
								ok = ast.NewIdent("simrtOk" + sfx)
								rhs = append(rhs, ok)
							}
							x := cm.Rhs[0]
							for {
								if p, isP := x.(*ast.ParenExpr); isP {
									x = p.X
									continue
								}
								break
							}
							recvChans = append(recvChans, x.(*ast.UnaryExpr).X)
							bind := &ast.AssignStmt{Lhs: cm.Lhs, Tok: cm.Tok, Rhs: rhs}
							one = &ast.IfStmt{
								Init: &ast.AssignStmt{Lhs: []ast.Expr{v, ok, got}, Tok: token.DEFINE, Rhs: []ast.Expr{tryRecv(x)}},
								Cond: got, Body: &ast.BlockStmt{List: append([]ast.Stmt{bind}, cc.Body...)}, Else: next}
						}
						cases = append(cases, &ast.CaseClause{List: []ast.Expr{&ast.BasicLit{Kind: token.INT, Value: strconv.Itoa(i)}}, Body: []ast.Stmt{one}})
						i++
					}
					if !hasDefault {
						// nothing ready: park, registered as a receiver on the
						// unbuffered channels of the receive cases; a case served by
						// a sender in the meantime is tried first
						served := ast.NewIdent("simrtServed" + id)
						none = []ast.Stmt{
							&ast.IfStmt{
								Init: &ast.AssignStmt{Lhs: []ast.Expr{served}, Tok: token.DEFINE, Rhs: []ast.Expr{&ast.CallExpr{Fun: simrtFn("SelectBlocked"), Args: recvChans}}},
								Cond: &ast.BinaryExpr{X: served, Op: token.GEQ, Y: &ast.BasicLit{Kind: token.INT, Value: "0"}},
								Body: &ast.BlockStmt{List: []ast.Stmt{&ast.AssignStmt{Lhs: []ast.Expr{start}, Tok: token.ASSIGN, Rhs: []ast.Expr{served}}}}},
							&ast.AssignStmt{Lhs: []ast.Expr{try}, Tok: token.ASSIGN, Rhs: []ast.Expr{&ast.UnaryExpr{Op: token.SUB, X: &ast.BasicLit{Kind: token.INT, Value: "1"}}}},
							&ast.BranchStmt{Tok: token.CONTINUE},
						}
					}
					body := []ast.Stmt{
						&ast.IfStmt{Cond: &ast.BinaryExpr{X: try, Op: token.EQL, Y: nlit}, Body: &ast.BlockStmt{List: none}},
						&ast.SwitchStmt{Tag: &ast.BinaryExpr{X: &ast.ParenExpr{X: &ast.BinaryExpr{X: start, Op: token.ADD, Y: try}}, Op: token.REM, Y: nlit}, Body: &ast.BlockStmt{List: cases}},
						&ast.BranchStmt{Tok: token.BREAK, Label: label},
					}
					loop := &ast.LabeledStmt{Label: label, Stmt: &ast.ForStmt{
						Init: &ast.AssignStmt{Lhs: []ast.Expr{try, start}, Tok: token.DEFINE, Rhs: []ast.Expr{&ast.BasicLit{Kind: token.INT, Value: "0"}, &ast.CallExpr{Fun: simrtFn("SelectStart"), Args: []ast.Expr{nlit}}}},
						Post: &ast.IncDecStmt{X: try, Tok: token.INC},
						Body: &ast.BlockStmt{List: body},
					}}
					return []ast.Stmt{&ast.BlockStmt{List: after(append(pre, loop))}}
				}
				again := &ast.CommClause{Body: []ast.Stmt{
					&ast.IfStmt{Cond: &ast.UnaryExpr{Op: token.NOT, X: &ast.CallExpr{Fun: simrtFn("Blocked")}}, Body: &ast.BlockStmt{List: []ast.Stmt{simrtCall("RealBlock")}}},
					&ast.BranchStmt{Tok: token.CONTINUE},
				}}
				st.Body.List = append(st.Body.List, again)
				var loop ast.Stmt = &ast.ForStmt{Body: &ast.BlockStmt{List: []ast.Stmt{st, &ast.BranchStmt{Tok: token.BREAK}}}}
				if contFlag != nil {
					loop = &ast.LabeledStmt{Label: selLabel, Stmt: loop}
				}
				if len(pre) == 0 && !term {
					return []ast.Stmt{loop}
				}
				// a block keeps the temporaries local
				return []ast.Stmt{&ast.BlockStmt{List: after(append(pre, loop))}}
			}
		case *ast.GoStmt:
			// go f(args) -> simrt.Spawn(func() { f(args) }) with the arguments
			// evaluated at the go statement, as the language requires.
			call := st.Call
			if call.Ellipsis.IsValid() {
				return []ast.Stmt{s} // variadic spread: leave as is
			}
			var pre []ast.Stmt
			for i, a := range call.Args {
				if _, lit := a.(*ast.BasicLit); lit {
					continue
				}
				name := ast.NewIdent("simrtArg" + strconv.Itoa(n) + "_" + strconv.Itoa(i))
				pre = append(pre, &ast.AssignStmt{Lhs: []ast.Expr{name}, Tok: token.DEFINE, Rhs: []ast.Expr{a}})
				call.Args[i] = name
			}
			n++
			spawn := simrtCall("Spawn", &ast.FuncLit{Type: &ast.FuncType{Params: &ast.FieldList{}}, Body: &ast.BlockStmt{List: []ast.Stmt{&ast.ExprStmt{X: call}}}})
			return append(pre, spawn)
		}
		return []ast.Stmt{s}
	}
	list = func(stmts []ast.Stmt) []ast.Stmt {
		out := make([]ast.Stmt, 0, 2*len(stmts))
		for _, s := range stmts {
			walk(s)
			out = append(out, rw.point(s))
			n++
			if ls, ok := s.(*ast.LabeledStmt); ok {
				// keep the label on the (possibly rewritten) statement
				labelled = true
				rs := rewriteStmt(ls.Stmt)
				labelled = false
				ls.Stmt = rs[len(rs)-1]
				out = append(out, rs[:len(rs)-1]...)
				out = append(out, ls)
				continue
			}
			out = append(out, rewriteStmt(s)...)
		}
		return out
	}
	walk = func(node ast.Node) {
		ast.Inspect(node, func(c ast.Node) bool {
			switch b := c.(type) {
			case *ast.SwitchStmt:
				if b.Init != nil {
					walk(b.Init)
				}
				if b.Tag != nil {
					walk(b.Tag)
				}
				for _, cl := range b.Body.List {
					walk(cl)
				}
				return false
			case *ast.TypeSwitchStmt:
				if b.Init != nil {
					walk(b.Init)
				}
				walk(b.Assign)
				for _, cl := range b.Body.List {
					walk(cl)
				}
				return false
			case *ast.SelectStmt:
				for _, cl := range b.Body.List {
					walk(cl)
				}
				return false
			case *ast.BlockStmt:
				if b != nil {
					b.List = list(b.List)
				}
				return false
			case *ast.CaseClause:
				for _, e := range b.List {
					walk(e)
				}
				b.Body = list(b.Body)
				return false
			case *ast.CommClause:
				b.Body = list(b.Body)
				return false
			}
			return true
		})
	}
	for _, d := range f.Decls {
		switch fd := d.(type) {
		case *ast.FuncDecl:
			if fd.Body != nil {
				walk(fd.Body)
			}
		case *ast.GenDecl:
			walk(fd)
		}
	}
	return n
}

// prepare builds the scratch tree: a rewritten copy of /repo's current working
// tree, the simulator runtime and the harness.
func prepare(scratch string) (rewriteStats, error) {
	var st rewriteStats
	sig := filepath.Join(scratch, "signal")
	err := copyTree(repoDir, sig, func(rel string, d fs.DirEntry) bool {
		base := filepath.Base(rel)
		if d.IsDir() {
			return !strings.HasPrefix(base, ".") && base != "testdata" && base != "vendor"
		}
		if base == "go.mod" || base == "go.sum" {
			return true
		}
		return strings.HasSuffix(base, ".go") && !strings.HasSuffix(base, "_test.go")
	})
	if err != nil {
		return st, err
	}
	for _, kv := range goEnv() {
		if k, v, ok := strings.Cut(kv, "="); ok && strings.HasPrefix(k, "GO") {
			os.Setenv(k, v) // the source importer runs "go list" for module-aware import resolution
		}
	}
	oldLoopVars = false
	if gm, err := os.ReadFile(filepath.Join(sig, "go.mod")); err == nil {
		for _, line := range strings.Split(string(gm), "\n") {
			if f := strings.Fields(line); len(f) == 2 && f[0] == "go" {
				if v := strings.Split(f[1], "."); len(v) >= 2 && v[0] == "1" {
					if minor, err := strconv.Atoi(v[1]); err == nil && minor < 22 {
						oldLoopVars = true
					}
				}
			}
		}
	}
	filesSeen = 0
	pointTable = []string{""}
	err = filepath.WalkDir(sig, func(p string, d fs.DirEntry, err error) error {
		if err != nil || !d.IsDir() {
			return err
		}
		n, pts, err := rewriteDir(p)
		st.Rewritten += n
		st.Points += pts
		return err
	})
	st.Files = filesSeen
	if data, jerr := json.Marshal(pointTable); jerr == nil {
		os.WriteFile(filepath.Join(scratch, "points.json"), data, 0o644)
	}
	st.PointNames = append([]string{}, pointTable...)
	if err != nil {
		return st, err
	}
	gm, err := os.ReadFile(filepath.Join(sig, "go.mod"))
	if err != nil {
		return st, err
	}
	gm = append(gm, []byte("\nrequire verif.local/simrt v0.0.0\n\nreplace verif.local/simrt => ../simrt\n")...)
	if err := os.WriteFile(filepath.Join(sig, "go.mod"), gm, 0o644); err != nil {
		return st, err
	}
	all := func(rel string, d fs.DirEntry) bool { return true }
	if err := copyTree(filepath.Join(verifDir, "sim", "simrt"), filepath.Join(scratch, "simrt"), all); err != nil {
		return st, err
	}
	if err := copyTree(filepath.Join(verifDir, "sim", "harness"), filepath.Join(scratch, "harness"), all); err != nil {
		return st, err
	}
	if _, err := os.Stat(filepath.Join(sig, "go.sum")); err == nil {
		if err := copyFile(filepath.Join(sig, "go.sum"), filepath.Join(scratch, "harness", "go.sum")); err != nil {
			return st, err
		}
	}
	return st, nil
}

// buildWorker compiles the worker in the scratch tree.
func buildWorker(scratch string, race bool) (string, error) {
	out := filepath.Join(scratch, "worker")
	// -trimpath: the scratch directory's name does not enter the compiler's
	// inputs, so that checks of the same tree share the Go build cache instead
	// of adding to it every time (86 GB had accumulated during development).
	args := []string{"build", "-trimpath"}
	if race {
		args = append(args, "-race")
		out += "-race"
	}
	args = append(args, "-o", out, ".")
	cmd := exec.Command("go", args...)
	cmd.Dir = filepath.Join(scratch, "harness")
	cmd.Env = goEnv()
	var buf bytes.Buffer
	cmd.Stdout, cmd.Stderr = &buf, &buf
	if err := cmd.Run(); err != nil {
		return "", fmt.Errorf("go %s: %v\n%s", strings.Join(args, " "), err, buf.String())
	}
	return out, nil
}
