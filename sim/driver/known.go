package main

import (
	"bufio"
	"os"
	"path/filepath"
	"regexp"
	"strings"
)

// known_findings.txt, one entry per line:
//
//	known: property=<id> class=<class> detail~<regexp> :: <what fails>
//	fixed: property=<id> <commit> <what failed>
//
// Only "known:" entries suppress anything, and only the violations whose
// class and detail they match. The file is never written at run time.
type knownEntry struct {
	Prop, Class string
	Re          *regexp.Regexp
	What        string
}

type knownSet struct {
	entries []knownEntry
	fixed   []string
}

func loadKnown() *knownSet {
	ks := &knownSet{}
	f, err := os.Open(filepath.Join(verifDir, "known_findings.txt"))
	if err != nil {
		return ks
	}
	defer f.Close()
	sc := bufio.NewScanner(f)
	for sc.Scan() {
		l := strings.TrimSpace(sc.Text())
		switch {
		case strings.HasPrefix(l, "fixed:"):
			ks.fixed = append(ks.fixed, l)
		case strings.HasPrefix(l, "known:"):
			head, what, _ := strings.Cut(strings.TrimPrefix(l, "known:"), "::")
			e := knownEntry{What: strings.TrimSpace(what)}
			for _, fld := range strings.Fields(head) {
				switch {
				case strings.HasPrefix(fld, "property="):
					e.Prop = strings.TrimPrefix(fld, "property=")
				case strings.HasPrefix(fld, "class="):
					e.Class = strings.TrimPrefix(fld, "class=")
				case strings.HasPrefix(fld, "detail~"):
					re, err := regexp.Compile(strings.TrimPrefix(fld, "detail~"))
					if err != nil {
						infra("known_findings.txt: bad regexp in %q: %v", l, err)
					}
					e.Re = re
				}
			}
			if e.Prop == "" || e.Class == "" || e.Re == nil {
				infra("known_findings.txt: entry needs property=, class= and detail~: %q", l)
			}
			ks.entries = append(ks.entries, e)
		}
	}
	return ks
}

func (ks *knownSet) match(prop string, v Violation) int {
	for i, e := range ks.entries {
		if e.Prop == prop && e.Class == v.Class && e.Re.MatchString(v.Detail) {
			return i
		}
	}
	return -1
}
