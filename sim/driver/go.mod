module verif.local/driver

go 1.21
