package main

import (
	"bufio"
	"bytes"
	"context"
	"crypto/sha256"
	"encoding/json"
	"fmt"
	"io/fs"
	"os"
	"os/exec"
	"path/filepath"
	"regexp"
	"runtime"
	"sort"
	"strconv"
	"strings"
	"sync"
	"syscall"
	"time"
)

// Tape mirrors simrt.Tape.
type Tape struct {
	Program      []uint64 `json:"program"`
	Schedule     []uint64 `json:"schedule"`
	ProgramSpans [][2]int `json:"program_spans,omitempty"`
}

// Violation mirrors the worker's.
type Violation struct {
	Class  string `json:"class"`
	Detail string `json:"detail"`
}

// line is any JSON line a worker prints.
type line struct {
	T          string                      `json:"t"`
	Run        uint64                      `json:"run"`
	Cfg        string                      `json:"cfg"`
	Sig        string                      `json:"sig"`
	Steps      int64                       `json:"steps"`
	Ops        int                         `json:"ops"`
	Nontrivial bool                        `json:"nontrivial"`
	Overrun    bool                        `json:"overrun"`
	Viol       *Violation                  `json:"violation"`
	Tape       *Tape                       `json:"tape"`
	Trace      []string                    `json:"trace"`
	Runs       int                         `json:"runs"`
	Counters   map[string]int64            `json:"counters"`
	Probes     map[string]int64            `json:"probes"`
	Tallies    map[string]map[string]int64 `json:"tallies"`
	Pairs      []string                    `json:"switch_pairs"`
	Race       bool                        `json:"race_build"`
	Executed   []int                       `json:"points_executed"`
	Preempted  []int                       `json:"points_preempted"`
}

type replayFile struct {
	Property   string     `json:"property"`
	Tier       string     `json:"tier"`
	Lane       string     `json:"lane"`
	Seed       uint64     `json:"seed"`
	Run        uint64     `json:"run_index"`
	Tape       Tape       `json:"tape"`
	Violation  *Violation `json:"violation,omitempty"`
	RaceReport string     `json:"race_report,omitempty"`
	Trace      []string   `json:"trace,omitempty"`
	TreeDigest string     `json:"tree_digest,omitempty"`
	Minimised  string     `json:"minimisation,omitempty"`
	// ChunkFrom is set when the violation depends on state the library keeps
	// at package level across runs of one worker process: the replay then is
	// "runs ChunkFrom..run_index of this seed in one fresh process" and the
	// tape is regenerated from the seed.
	ChunkFrom *uint64 `json:"replay_runs_from,omitempty"`
}

const gorace = "GORACE=halt_on_error=0 atexit_sleep_ms=0 exitcode=66"

type workerOut struct {
	lines  []line
	stderr string
	exit   int
	err    error
}

// runWorker executes one worker process and parses its output.
func runWorker(bin string, timeout time.Duration, args ...string) workerOut {
	ctx, cancel := context.WithTimeout(context.Background(), timeout)
	defer cancel()
	cmd := exec.CommandContext(ctx, bin, args...)
	cmd.SysProcAttr = &syscall.SysProcAttr{Pdeathsig: syscall.SIGKILL} // no orphan workers if the driver is killed
	// The simulation runs one task at a time: two OS threads are plenty, and
	// sixteen worker processes must not each start sixteen GC workers.
	cmd.Env = append(os.Environ(), gorace, "GOMAXPROCS="+fmt.Sprint(envInt("VERIF_WORKER_GOMAXPROCS", 2)))
	var stdout, stderr bytes.Buffer
	cmd.Stdout, cmd.Stderr = &stdout, &stderr
	err := cmd.Run()
	wo := workerOut{stderr: stderr.String()}
	if ctx.Err() != nil {
		wo.err = fmt.Errorf("worker timed out after %v: %v", timeout, args)
		return wo
	}
	if err != nil {
		if ee, ok := err.(*exec.ExitError); ok {
			wo.exit = ee.ExitCode()
		} else {
			wo.err = err
			return wo
		}
	}
	sc := bufio.NewScanner(&stdout)
	sc.Buffer(make([]byte, 1<<20), 1<<28)
	for sc.Scan() {
		var l line
		if err := json.Unmarshal(sc.Bytes(), &l); err != nil {
			// A library that writes outside its buffers can damage the worker's
			// output as well. When a given tape is replayed the verdict is all
			// that is needed from the line: salvage it.
			if sl, ok := salvage(sc.Bytes(), args); ok {
				wo.lines = append(wo.lines, sl)
				continue
			}
			wo.err = fmt.Errorf("unparsable worker output %q: %v", sc.Text(), err)
			return wo
		}
		wo.lines = append(wo.lines, l)
	}
	return wo
}

var (
	salvageViol = regexp.MustCompile(`"violation":\{"class":"([a-z-]+)","detail":"((?:[^"\\]|\\.)*)"`)
	salvageRun  = regexp.MustCompile(`^\{"t":"done","run":(\d+),`)
)

// salvage extracts run number and verdict from a damaged "done" line of a
// worker that replays a given tape (-replay): the tape is known to the
// caller, and everything else on the line is informative only.
func salvage(b []byte, args []string) (line, bool) {
	replaying := false
	for _, a := range args {
		if a == "-replay" {
			replaying = true
		}
	}
	rm := salvageRun.FindSubmatch(b)
	vm := salvageViol.FindSubmatch(b)
	if !replaying || rm == nil || vm == nil {
		return line{}, false
	}
	run, _ := strconv.ParseUint(string(rm[1]), 10, 64)
	detail, err := strconv.Unquote(`"` + string(vm[2]) + `"`)
	if err != nil {
		detail = string(vm[2])
	}
	return line{T: "done", Run: run, Nontrivial: true,
		Viol: &Violation{Class: string(vm[1]), Detail: detail + " [the rest of the worker's output line was damaged, presumably by the library under test writing outside its buffers]"}}, true
}

// found is one violating run.
type found struct {
	lane   laneCfg
	from   uint64 // first run index of the chunk the run was found in
	run    uint64
	viol   Violation
	tape   Tape
	stderr string
}

// agg collects what the runs of one check covered.
type agg struct {
	mu         sync.Mutex
	runs       map[string]int64
	steps, ops int64
	overruns   int64
	allSigs    map[uint64]struct{}
	ntSigs     map[uint64]struct{}
	nontrivial int64
	counters   map[string]int64
	probes     map[string]int64
	tallies    map[string]map[string]int64
	pairs      map[string]struct{}
	samples    []map[string]any
	executed   map[int]bool
	preempted  map[int]bool
	cfgSamples []string
}

func newAgg() *agg {
	return &agg{runs: map[string]int64{}, allSigs: map[uint64]struct{}{}, ntSigs: map[uint64]struct{}{},
		counters: map[string]int64{}, probes: map[string]int64{}, tallies: map[string]map[string]int64{}, pairs: map[string]struct{}{},
		executed: map[int]bool{}, preempted: map[int]bool{}}
}

func (a *agg) add(lane string, wo workerOut) {
	a.mu.Lock()
	defer a.mu.Unlock()
	for _, l := range wo.lines {
		switch l.T {
		case "done":
			a.runs[lane]++
			a.steps += l.Steps
			a.ops += int64(l.Ops)
			key := sigKey(lane, l.Sig)
			a.allSigs[key] = struct{}{}
			if l.Nontrivial {
				a.nontrivial++
				a.ntSigs[key] = struct{}{}
			}
			if l.Overrun {
				a.overruns++
			}
			if len(l.Trace) > 0 && len(a.samples) < 3 {
				tr := l.Trace
				if len(tr) > 120 {
					tr = append(append([]string{}, tr[:100]...), fmt.Sprintf("... (%d more lines)", len(l.Trace)-100))
				}
				a.samples = append(a.samples, map[string]any{"lane": lane, "run_index": l.Run, "config": l.Cfg, "schedule_signature": l.Sig, "trace": tr})
			}
			if len(a.cfgSamples) < 8 {
				a.cfgSamples = append(a.cfgSamples, fmt.Sprintf("%s run %d: %s", lane, l.Run, l.Cfg))
			}
		case "summary":
			for k, v := range l.Counters {
				a.counters[k] += v
			}
			for k, v := range l.Probes {
				a.probes[k] += v
			}
			for dim, m := range l.Tallies {
				if a.tallies[dim] == nil {
					a.tallies[dim] = map[string]int64{}
				}
				for k, v := range m {
					a.tallies[dim][k] += v
				}
			}
			for _, p := range l.Pairs {
				a.pairs[p] = struct{}{}
			}
			for _, id := range l.Executed {
				a.executed[id] = true
			}
			for _, id := range l.Preempted {
				a.preempted[id] = true
			}
		}
	}
}

// firstViolation extracts the violating run of a worker's output, if any.
func firstViolation(lc laneCfg, wo workerOut) *found {
	for _, l := range wo.lines {
		if l.T == "done" && l.Viol != nil {
			f := &found{lane: lc, run: l.Run, viol: *l.Viol, stderr: wo.stderr}
			for _, first := range wo.lines {
				if first.T == "start" {
					f.from = first.Run
					break
				}
			}
			if l.Tape != nil {
				f.tape = *l.Tape
			}
			return f
		}
	}
	return nil
}

// sigKey folds lane and signature into one 64-bit key (memory: millions of runs).
func sigKey(lane, sig string) uint64 {
	var k uint64
	fmt.Sscanf(sig, "%x", &k)
	h := uint64(14695981039346656037)
	for i := 0; i < len(lane); i++ {
		h = (h ^ uint64(lane[i])) * 1099511628211
	}
	return k ^ h
}

func treeDigest() string {
	h := sha256.New()
	var files []string
	filepath.WalkDir(repoDir, func(p string, d fs.DirEntry, err error) error {
		if err != nil {
			return nil
		}
		if d.IsDir() && strings.HasPrefix(d.Name(), ".") && p != repoDir {
			return filepath.SkipDir
		}
		if !d.IsDir() && strings.HasSuffix(p, ".go") && !strings.HasSuffix(p, "_test.go") {
			files = append(files, p)
		}
		return nil
	})
	sort.Strings(files)
	for _, f := range files {
		data, _ := os.ReadFile(f)
		fmt.Fprintf(h, "%s %d\n", strings.TrimPrefix(f, repoDir), len(data))
		h.Write(data)
	}
	return fmt.Sprintf("%x", h.Sum(nil))[:16]
}

// builtTree is a prepared scratch tree with the worker binaries of a property.
type builtTree struct {
	level   int // rewrite level that built (2 = full)
	scratch string
	bins    map[bool]string // by race flag
	rw      rewriteStats
	buildS  float64
}

func buildFor(prop string) *builtTree {
	t0 := time.Now()
	need := map[bool]bool{}
	for _, lc := range lanes[prop] {
		need[lc.Race] = true
	}
	var lastErr error
	for level := 2; level >= 0; level-- {
		rewriteLevel = level
		bt := &builtTree{scratch: newScratch(), bins: map[bool]string{}, level: level}
		rw, err := prepare(bt.scratch)
		if err != nil {
			lastErr = fmt.Errorf("preparing the scratch copy of /repo failed: %v", err)
			fmt.Printf("note: source rewrite at level %d failed (%v); stepping down\n", level, err)
			continue
		}
		bt.rw = rw
		var wg sync.WaitGroup
		var mu sync.Mutex
		var berr error
		for race := range need {
			wg.Add(1)
			go func(race bool) {
				defer wg.Done()
				bin, err := buildWorker(bt.scratch, race)
				mu.Lock()
				defer mu.Unlock()
				if err != nil {
					berr = err
				}
				bt.bins[race] = bin
			}(race)
		}
		wg.Wait()
		if berr != nil {
			lastErr = berr
			if level > 0 {
				fmt.Printf("note: the tree rewritten at level %d does not build; stepping down (first lines: %.400s)\n", level, berr.Error())
			}
			continue
		}
		bt.buildS = time.Since(t0).Seconds()
		return bt
	}
	infra("building the worker against /repo's current tree failed (build/API breakage is not a violation):\n%v", lastErr)
	return nil
}

func workerArgs(prop, tier string, lc laneCfg, seed uint64) []string {
	return []string{"-prop", prop, "-tier", tier, "-lane", lc.Worker, "-seed", fmt.Sprint(seed)}
}

func check(prop, tier string, seed uint64) int {
	t0 := time.Now()
	fmt.Printf("verif check property=%s tier=%s VERIF_SEED=%d\n", prop, tier, seed)
	known := loadKnown()
	bt := buildFor(prop)
	fmt.Printf("built workers from /repo working tree (digest %s; %d files, %d sync.Pool references -> simrt.Pool) in %.1fs\n",
		treeDigest(), bt.rw.Files, bt.rw.Rewritten, bt.buildS)

	lcs := lanes[prop]
	nworkers := envInt("VERIF_WORKERS", runtime.NumCPU())
	budget := time.Duration(envInt("VERIF_BUDGET_S", 900)) * time.Second
	deadline := t0.Add(budget)
	scale := envInt("VERIF_RUNS_PERCENT", 100)

	type laneState struct {
		next, limit uint64
		dispatched  int64
		retry       [][2]uint64
	}
	states := make([]*laneState, len(lcs))
	for i, lc := range lcs {
		states[i] = &laneState{next: lc.Offset}
		if tier == "quick" {
			states[i].limit = lc.Offset + uint64(lc.QuickRuns*scale/100)
		} else {
			states[i].limit = ^uint64(0)
		}
	}
	a := newAgg()
	var mu sync.Mutex
	var finds []*found
	knownSeen := map[int]int{}
	stop := false
	sampleGiven := map[int]bool{}
	isolated := map[int]bool{}
	infraNote, infraCount := "", 0
	retriedChunk := map[[2]uint64]bool{}
	infraRetried := 0
	var quickDeadline time.Time // bounds the quick tier on slow trees, and the isolated re-search
	if tier == "quick" {
		quickDeadline = t0.Add(time.Duration(envInt("VERIF_QUICK_MAX_S", 150)) * time.Second)
	}

	takeChunk := func() (int, uint64, uint64, bool) {
		mu.Lock()
		defer mu.Unlock()
		if stop || (tier == "thorough" && time.Now().After(deadline)) || (!quickDeadline.IsZero() && time.Now().After(quickDeadline)) {
			return 0, 0, 0, false
		}
		best := -1
		for i, st := range states {
			if len(st.retry) == 0 && st.next >= st.limit {
				continue
			}
			if best < 0 || st.dispatched*int64(lcs[best].Share) < states[best].dispatched*int64(lcs[i].Share) {
				best = i
			}
		}
		if best < 0 {
			return 0, 0, 0, false
		}
		st := states[best]
		var from, to uint64
		if len(st.retry) > 0 {
			from, to = st.retry[0][0], st.retry[0][1]
			st.retry = st.retry[1:]
		} else {
			from = st.next
			to = from + uint64(lcs[best].Chunk)
			if to > st.limit {
				to = st.limit
			}
			st.next = to
		}
		st.dispatched += int64(to - from)
		return best, from, to, true
	}

	dispatch := func() {
		var wg sync.WaitGroup
		for w := 0; w < nworkers; w++ {
			wg.Add(1)
			go func() {
				defer wg.Done()
				for {
					li, from, to, ok := takeChunk()
					if !ok {
						return
					}
					lc := lcs[li]
					args := append(workerArgs(prop, tier, lc, seed), "-from", fmt.Sprint(from), "-to", fmt.Sprint(to))
					mu.Lock()
					if !sampleGiven[li] {
						sampleGiven[li] = true
						args = append(args, "-sample", "1")
					}
					mu.Unlock()
					mu.Lock()
					iso := isolated[li] || lc.Isolate
					mu.Unlock()
					if iso {
						args = append(args, "-isolate")
					}
					switch {
					case !quickDeadline.IsZero():
						args = append(args, "-stopat", fmt.Sprint(quickDeadline.Unix()))
					case tier == "thorough":
						args = append(args, "-stopat", fmt.Sprint(deadline.Unix()))
					}
					wo := runWorker(bt.bins[lc.Race], 30*time.Minute, args...)
					if d := os.Getenv("VERIF_DEBUG_FAIL_CHUNK"); d != "" && d == fmt.Sprintf("%s:%d", lc.Name, from) {
						// development aid: pretend this chunk's worker failed (once, or
						// every time with VERIF_DEBUG_FAIL_ALWAYS) to exercise the retry
						mu.Lock()
						first := !retriedChunk[[2]uint64{uint64(li), from}]
						mu.Unlock()
						if first || os.Getenv("VERIF_DEBUG_FAIL_ALWAYS") != "" {
							wo.exit, wo.stderr = 2, "INFRA: pretended failure (VERIF_DEBUG_FAIL_CHUNK)"
						}
					}
					if wo.err != nil || (wo.exit != 0 && wo.exit != 66 && wo.exit != 77) {
						// A chunk that could not be completed is run once more in a
						// fresh process before it counts: a run is a pure function of
						// its tape, so trouble that does not repeat was the machine's
						// (load, memory), and trouble that repeats is reported.
						logInfraChunk(prop, lc.Name, from, to, wo)
						mu.Lock()
						again := !retriedChunk[[2]uint64{uint64(li), from}]
						if again {
							retriedChunk[[2]uint64{uint64(li), from}] = true
							states[li].retry = append(states[li].retry, [2]uint64{from, to})
							infraRetried++
						}
						mu.Unlock()
						if again {
							continue
						}
					}
					if wo.err != nil {
						// e.g. output garbled by a library that corrupts memory: deferred
						// like any other chunk that could not be completed
						mu.Lock()
						if infraNote == "" {
							infraNote = fmt.Sprintf("%v (lane %s runs %d..%d)\n%s", wo.err, lc.Name, from, to, tailOf(wo.stderr, 2000))
						}
						infraCount++
						if infraCount >= 8 {
							stop = true
						}
						mu.Unlock()
						continue
					}
					if wo.exit == 77 {
						// Runs in one process depend on each other (the library keeps
						// goroutines/state at package level): redo the unfinished part
						// of the chunk, and every later chunk of this lane, one
						// process per run.
						a.add(lc.Name, wo)
						var at uint64 = from
						for _, l := range wo.lines {
							if l.T == "start" {
								at = l.Run
							}
						}
						mu.Lock()
						isolated[li] = true
						states[li].retry = append(states[li].retry, [2]uint64{at, to})
						mu.Unlock()
						continue
					}
					if wo.exit != 0 && wo.exit != 66 {
						// Infrastructure trouble in one chunk (e.g. a deadlocked run)
						// does not stop the search: a violation that reproduces, found
						// elsewhere, is the better answer. Without one the check ends
						// with exit 2 and this message.
						a.add(lc.Name, wo)
						mu.Lock()
						if infraNote == "" {
							infraNote = fmt.Sprintf("worker exited %d (lane %s runs %d..%d)\n%s", wo.exit, lc.Name, from, to, tailOf(wo.stderr, 4000))
						}
						infraCount++
						if infraCount >= 8 {
							stop = true
						}
						mu.Unlock()
						continue
					}
					a.add(lc.Name, wo)
					f := firstViolation(lc, wo)
					if f == nil && (wo.exit == 66 || strings.Contains(wo.stderr, "WARNING: DATA RACE")) {
						infra("race detector report outside any attributed run (lane %s runs %d..%d)\n%s", lc.Name, from, to, wo.stderr)
					}
					if f == nil {
						continue
					}
					mu.Lock()
					if k := known.match(prop, f.viol); k >= 0 {
						knownSeen[k]++
						if f.run+1 < to {
							states[li].retry = append(states[li].retry, [2]uint64{f.run + 1, to})
						}
					} else {
						finds = append(finds, f)
						stop = true
					}
					mu.Unlock()
				}
			}()
		}
		wg.Wait()
	}
	dispatch()

	for k, n := range knownSeen {
		fmt.Printf("KNOWN-FINDING: property=%s %s (seen in %d runs)\n", prop, known.entries[k].What, n)
	}
	code := 0
	var report *replayFile
	if len(finds) > 0 {
		sort.Slice(finds, func(i, j int) bool {
			if finds[i].lane.Name != finds[j].lane.Name {
				return finds[i].lane.Name < finds[j].lane.Name
			}
			return finds[i].run < finds[j].run
		})
		f := finds[0]
		fmt.Printf("violation in lane %s run %d: [%s] %s\n", f.lane.Name, f.run, f.viol.Class, f.viol.Detail)
		var reproduced bool
		report, reproduced = minimiseAndReport(bt, prop, tier, seed, f)
		if !reproduced {
			if rf := prefixReplay(bt, prop, tier, seed, f); rf != nil {
				report, reproduced = rf, true
			}
		}
		if !reproduced {
			// The run violated the property inside its worker process but its
			// tape does not in a fresh one: runs in one process depend on each
			// other through state the library keeps at package level. Search
			// again with every run in a process of its own; whatever is found
			// there reproduces by construction.
			fmt.Printf("the violation of run %d does not reproduce from its tape in a fresh process (package-level state carried over between runs of one worker?): searching again with one process per run\n", f.run)
			mu.Lock()
			finds = nil
			stop = false
			for li := range lcs {
				isolated[li] = true
				states[li].next = lcs[li].Offset
				states[li].retry = nil
				states[li].dispatched = 0
			}
			mu.Unlock()
			isoDeadline := time.Now().Add(time.Duration(envInt("VERIF_ISOLATED_S", 120)) * time.Second)
			if tier == "thorough" && isoDeadline.After(deadline) {
				deadline = isoDeadline
			}
			quickDeadline = isoDeadline
			dispatch()
			if len(finds) == 0 {
				infra("nondeterministic replay: lane %s run %d reported [%s] %s, its tape does not reproduce it in three fresh processes, and a search with one process per run found nothing", f.lane.Name, f.run, f.viol.Class, f.viol.Detail)
			}
			sort.Slice(finds, func(i, j int) bool {
				if finds[i].lane.Name != finds[j].lane.Name {
					return finds[i].lane.Name < finds[j].lane.Name
				}
				return finds[i].run < finds[j].run
			})
			f = finds[0]
			fmt.Printf("violation in lane %s run %d (isolated): [%s] %s\n", f.lane.Name, f.run, f.viol.Class, f.viol.Detail)
			report, reproduced = minimiseAndReport(bt, prop, tier, seed, f)
			if !reproduced {
				infra("nondeterministic replay: lane %s run %d reported [%s] in a process of its own, yet its tape does not reproduce it", f.lane.Name, f.run, f.viol.Class)
			}
		}
		code = 1
	}
	if code == 0 && infraNote != "" {
		writeEvidence(prop, tier, seed, a, bt, lcs, time.Since(t0).Seconds(), 0, nworkers, known, nil)
		infra("%d worker chunk(s) could not be completed and no violation was found; first: %s", infraCount, infraNote)
	}
	if infraRetried > 0 {
		fmt.Printf("note: %d worker chunk(s) were run a second time after an infrastructure failure (logs under %s/replays/infra-*.log)\n", infraRetried, verifDir)
	}
	if infraNote != "" {
		fmt.Printf("note: %d worker chunk(s) ended with an infrastructure failure during this search (first: %.300s)\n", infraCount, infraNote)
	}
	isoNames := []string{}
	for li, on := range isolated {
		if on {
			isoNames = append(isoNames, lcs[li].Name)
		}
	}
	sort.Strings(isoNames)
	writeEvidence(prop, tier, seed, a, bt, lcs, time.Since(t0).Seconds(), len(finds), nworkers, known, isoNames)
	if report != nil {
		path := filepath.Join(verifDir, "replays", fmt.Sprintf("%s-%s-%d-%d.json", prop, report.Lane, seed, report.Run))
		os.MkdirAll(filepath.Dir(path), 0o755)
		data, _ := json.MarshalIndent(report, "", " ")
		if err := os.WriteFile(path, data, 0o644); err != nil {
			infra("writing replay file: %v", err)
		}
		fmt.Printf("  class: %s\n  detail: %s\n  minimised tape: %d program + %d schedule entries (%s)\n",
			report.Violation.Class, report.Violation.Detail, len(report.Tape.Program), len(report.Tape.Schedule), report.Minimised)
		shown := report.Trace
		if len(shown) > 160 {
			fmt.Printf("  | ... (%d earlier trace lines are in the replay file)\n", len(shown)-120)
			shown = shown[len(shown)-120:]
		}
		for _, l := range shown {
			fmt.Println("  | " + l)
		}
		if report.RaceReport != "" {
			fmt.Println(indent(report.RaceReport, "  # "))
		}
		fmt.Printf("VIOLATION property=%s replay=%s\n", prop, path)
	} else {
		var total int64
		for _, n := range a.runs {
			total += n
		}
		fmt.Printf("property %s held on all %d simulated runs (%d distinct non-trivial schedule signatures) in %.1fs\n",
			prop, total, len(a.ntSigs), time.Since(t0).Seconds())
	}
	return code
}

func tailOf(s string, n int) string {
	if len(s) > n {
		return "..." + s[len(s)-n:]
	}
	return s
}

func indent(s, pre string) string {
	return pre + strings.ReplaceAll(strings.TrimRight(s, "\n"), "\n", "\n"+pre)
}

// logInfraChunk keeps what a worker that could not complete its chunk wrote
// (the replays directory is not under version control).
func logInfraChunk(prop, lane string, from, to uint64, wo workerOut) {
	dir := filepath.Join(verifDir, "replays")
	os.MkdirAll(dir, 0o755)
	name := filepath.Join(dir, fmt.Sprintf("infra-%s-%s-%d-%d.log", prop, lane, from, time.Now().Unix()))
	os.WriteFile(name, []byte(fmt.Sprintf("lane %s runs %d..%d exit=%d err=%v\n%s", lane, from, to, wo.exit, wo.err, tailOf(wo.stderr, 20000))), 0o644)
}
