// Command verif is the driver of the deterministic-simulation checks:
// it rebuilds a rewritten scratch copy of /repo, fans simulated runs out over
// worker processes, minimises and replays violations, and writes evidence.
//
//	verif check --property C11 --tier quick
//	verif replay /verif/replays/C11-1-42.json
//	verif selftest
package main

import (
	"flag"
	"fmt"
	"os"
	"os/signal"
	"strconv"
	"syscall"
)

// laneCfg is one way of executing a property's runs.
type laneCfg struct {
	Name      string // lane name in evidence and replay files
	Race      bool   // race-detector build
	Worker    string // worker -lane flag
	QuickRuns int    // runs in the quick tier
	Chunk     int    // runs per worker process
	Offset    uint64 // run-index offset (lanes that must explore different runs)
	Share     int    // share of the thorough budget (relative)
	Isolate   bool   // every run in a process of its own (what a library initialises once per process is initialised in every run)
}

var lanes = map[string][]laneCfg{
	"C10": {
		{Name: "stub", Worker: "stub", QuickRuns: 240000, Chunk: 2000, Share: 4},
		{Name: "real-sync.Pool", Worker: "real", QuickRuns: 40000, Chunk: 1000, Share: 1},
	},
	"C11": {
		{Name: "stub-race", Race: true, Worker: "stub", QuickRuns: 24000, Chunk: 500, Share: 3},
		{Name: "stub-norace", Worker: "stub", QuickRuns: 256000, Chunk: 2000, Offset: 1 << 32, Share: 1},
	},
	"C19": {
		{Name: "race", Race: true, Worker: "stub", QuickRuns: 96000, Chunk: 500, Share: 8},
		{Name: "race-fresh-process", Race: true, Worker: "stub", QuickRuns: 1280, Chunk: 40, Offset: 1 << 33, Share: 1, Isolate: true},
	},
}

func envInt(name string, def int) int {
	if v := os.Getenv(name); v != "" {
		if n, err := strconv.Atoi(v); err == nil {
			return n
		}
	}
	return def
}

func infra(format string, args ...any) {
	fmt.Fprintf(os.Stderr, "INFRA: "+format+"\n", args...)
	cleanupScratch()
	os.Exit(2)
}

var scratchDirs []string

func cleanupScratch() {
	for _, d := range scratchDirs {
		os.RemoveAll(d)
	}
	scratchDirs = nil
}

func newScratch() string {
	d, err := os.MkdirTemp("", "verif-scratch-")
	if err != nil {
		infra("mktemp: %v", err)
	}
	scratchDirs = append(scratchDirs, d)
	return d
}

func main() {
	if len(os.Args) < 2 {
		fmt.Fprintln(os.Stderr, "usage: verif check|replay|selftest|prepare ...")
		os.Exit(2)
	}
	sigc := make(chan os.Signal, 1)
	signal.Notify(sigc, syscall.SIGINT, syscall.SIGTERM)
	go func() {
		<-sigc
		cleanupScratch()
		os.Exit(2)
	}()
	switch os.Args[1] {
	case "check":
		fs := flag.NewFlagSet("check", flag.ExitOnError)
		prop := fs.String("property", "", "C10|C11|C19")
		tier := fs.String("tier", os.Getenv("VERIF_TIER"), "quick|thorough")
		fs.Parse(os.Args[2:])
		if *tier == "" {
			*tier = "quick"
		}
		if _, ok := lanes[*prop]; !ok || (*tier != "quick" && *tier != "thorough") {
			infra("unknown --property %q or --tier %q", *prop, *tier)
		}
		seed := uint64(envInt("VERIF_SEED", 1))
		code := check(*prop, *tier, seed)
		cleanupScratch()
		os.Exit(code)
	case "replay":
		if len(os.Args) < 3 {
			infra("usage: verif replay <file>")
		}
		code := replayCmd(os.Args[2])
		cleanupScratch()
		os.Exit(code)
	case "selftest":
		code := selftest(os.Args[2:])
		cleanupScratch()
		os.Exit(code)
	case "warm":
		// setup: compile every worker once so that the build cache is warm
		for _, p := range []string{"C10", "C11", "C19"} {
			bt := buildFor(p)
			fmt.Printf("warm: built workers for %s in %.1fs\n", p, bt.buildS)
			cleanupScratch()
		}
	case "prepare":
		// development aid: leave a built scratch tree at the given directory
		if len(os.Args) < 3 {
			infra("usage: verif prepare <dir>")
		}
		dir := os.Args[2]
		if err := os.MkdirAll(dir, 0o755); err != nil {
			infra("%v", err)
		}
		st, err := prepare(dir)
		if err != nil {
			infra("prepare: %v", err)
		}
		fmt.Printf("prepared %s: %d files, %d sync.Pool references rewritten\n", dir, st.Files, st.Rewritten)
	default:
		infra("unknown command %q", os.Args[1])
	}
}
