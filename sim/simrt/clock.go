package simrt

import "time"

// clock is the simulated clock of a run: the only clock the library reads
// (time.Now/Since/Until/Sleep/After/Tick in the scratch copy are re-pointed
// here). It advances by ClockTick per scheduler step, jumps forward by a
// seeded amount when the code looks at it (fault "clock jump"), and jumps to
// the next timer when every task is blocked (discrete-event time).
type clock struct {
	now          time.Duration // since simEpoch
	ClockTick    time.Duration
	ClockJumpNum int // out of FaultDen per Now() call
	ClockJumpMax time.Duration
	timers       []*simTimer
	timeUsed     bool
}

type simTimer struct {
	at     time.Duration
	period time.Duration
	ch     chan time.Time
	dead   bool
}

var simEpoch = time.Date(2026, 1, 1, 0, 0, 0, 0, time.UTC)

//go:norace
func (s *Sim) inTask() bool {
	if s == nil {
		return false
	}
	t := s.running // read once: a foreign goroutine may call this while the scheduler changes it
	return t != nil && getg() == t.g
}

// advance moves the clock to t (never backwards) and fires due timers.
//
//go:norace
func (s *Sim) advance(t time.Duration) {
	if t <= s.now {
		return
	}
	s.now = t
	for i := 0; i < len(s.timers); i++ {
		tm := s.timers[i]
		for !tm.dead && tm.at <= s.now {
			if tm.ch != nil {
				select {
				case tm.ch <- simEpoch.Add(tm.at):
				default:
				}
			}
			s.Counters[CtTimersFired]++
			if tm.period > 0 {
				tm.at += tm.period
			} else {
				tm.dead = true
			}
		}
	}
}

// nextTimer returns the earliest pending timer time.
//
//go:norace
func (s *Sim) nextTimer() (time.Duration, bool) {
	var best time.Duration
	ok := false
	for i := 0; i < len(s.timers); i++ {
		if tm := s.timers[i]; !tm.dead && (!ok || tm.at < best) {
			best, ok = tm.at, true
		}
	}
	return best, ok
}

//go:norace
func (s *Sim) addTimer(tm *simTimer) {
	n := len(s.timers)
	bigger := make([]*simTimer, n+1)
	for i := 0; i < n; i++ {
		bigger[i] = s.timers[i]
	}
	bigger[n] = tm
	s.timers = bigger
}

// SimNow returns the run's simulated time.
//
//go:norace
func (s *Sim) SimNow() time.Duration { return s.now }

// Now replaces time.Now in the scratch copy of the library.
//
//go:norace
func Now() time.Time {
	s := cur
	if !s.inTask() {
		if s != nil {
			return simEpoch.Add(s.now)
		}
		return time.Now()
	}
	s.timeUsed = true
	if s.ClockJumpNum > 0 && s.Sched.Coin(s.ClockJumpNum, FaultDen) {
		d := time.Duration(1+s.Sched.Draw(1000)) * s.ClockJumpMax / 1000
		s.Counters[CtFaultClockJump]++
		s.mix(0xd000)
		s.Tracef("  FAULT clock jump: +%d ns", int64(d))
		s.advance(s.now + d)
	}
	return simEpoch.Add(s.now)
}

// Since replaces time.Since.
//
//go:norace
func Since(t time.Time) time.Duration { return Now().Sub(t) }

// Until replaces time.Until.
//
//go:norace
func Until(t time.Time) time.Duration { return t.Sub(Now()) }

// Sleep replaces time.Sleep: the task waits cooperatively until the simulated
// clock has passed the deadline.
//
//go:norace
func Sleep(d time.Duration) {
	s := cur
	if !s.inTask() {
		time.Sleep(d)
		return
	}
	s.timeUsed = true
	tm := &simTimer{at: s.now + d}
	s.addTimer(tm)
	for !tm.dead {
		if !Blocked() {
			return
		}
	}
}

// After replaces time.After.
//
//go:norace
func After(d time.Duration) <-chan time.Time {
	s := cur
	if !s.inTask() {
		return time.After(d)
	}
	s.timeUsed = true
	tm := &simTimer{at: s.now + d, ch: make(chan time.Time, 1)}
	s.addTimer(tm)
	return tm.ch
}

// Tick replaces time.Tick.
//
//go:norace
func Tick(d time.Duration) <-chan time.Time {
	s := cur
	if !s.inTask() || d <= 0 {
		return time.Tick(d)
	}
	s.timeUsed = true
	tm := &simTimer{at: s.now + d, period: d, ch: make(chan time.Time, 1)}
	s.addTimer(tm)
	return tm.ch
}
