package simrt

import (
	"runtime"
	"time"
	"unsafe"
)

// clock is the simulated clock of a run: the only clock the library reads
// (time.Now/Since/Until/Sleep/After/Tick in the scratch copy are re-pointed
// here). It advances by ClockTick per scheduler step, jumps forward by a
// seeded amount when the code looks at it (fault "clock jump"), and jumps to
// the next timer when every task is blocked (discrete-event time).
type clock struct {
	now          time.Duration // since simEpoch
	ClockTick    time.Duration
	ClockJumpNum int // out of FaultDen per Now() call
	ClockJumpMax time.Duration
	timers       []*simTimer
	retired      []*simTimer // dead timers moved out of the scanned list (findTimer brings them back)
	timeUsed     bool
}

type simTimer struct {
	at     time.Duration
	period time.Duration
	ch     chan time.Time
	dead   bool
	key    interface{}  // the real *time.Timer / *time.Ticker this entry stands for
	rt     *time.Timer  // NewTimer: deliver on rt.C
	tk     *time.Ticker // NewTicker: deliver on tk.C
	fn     func()       // AfterFunc: run as a task
}

var simEpoch = time.Date(2026, 1, 1, 0, 0, 0, 0, time.UTC)

//go:norace
func (s *Sim) inTask() bool {
	if s == nil {
		return false
	}
	t := s.running // read once: a foreign goroutine may call this while the scheduler changes it
	return t != nil && getg() == t.g
}

// advance moves the clock to t (never backwards) and fires due timers.
//
//go:norace
func (s *Sim) advance(t time.Duration) {
	if t <= s.now {
		return
	}
	s.now = t
	for i := 0; i < len(s.timers); i++ {
		tm := s.timers[i]
		for !tm.dead && tm.at <= s.now {
			if tm.ch != nil {
				select {
				case tm.ch <- simEpoch.Add(tm.at):
				default:
				}
			}
			tm.fireReal(s)
			s.Counters[CtTimersFired]++
			if tm.period > 0 {
				// a ticker that fell several periods behind delivers one tick
				// (its channel holds one; the runtime drops the others as well)
				tm.at += ((s.now-tm.at)/tm.period + 1) * tm.period
			} else {
				tm.dead = true
			}
		}
	}
}

// nextTimer returns the earliest pending timer time.
//
//go:norace
func (s *Sim) nextTimer() (time.Duration, bool) {
	var best time.Duration
	ok := false
	for i := 0; i < len(s.timers); i++ {
		if tm := s.timers[i]; !tm.dead && (!ok || tm.at < best) {
			best, ok = tm.at, true
		}
	}
	return best, ok
}

//go:norace
func (s *Sim) addTimer(tm *simTimer) {
	n := len(s.timers)
	if n == cap(s.timers) {
		// Stopped and fired timers are moved out of the list the clock scans
		// (they stay findable: a timer can be reset through its handle); a
		// library that arms a timer per operation would otherwise make every
		// step, and every insertion, cost as much as the run is long.
		live := 0
		for i := 0; i < n; i++ {
			if !s.timers[i].dead {
				live++
			}
		}
		bigger := make([]*simTimer, 0, 2*live+16)
		for i := 0; i < n; i++ {
			if t := s.timers[i]; !t.dead {
				bigger = bigger[:len(bigger)+1]
				bigger[len(bigger)-1] = t
			} else {
				s.retire(t)
			}
		}
		s.timers = bigger
		n = len(bigger)
	}
	s.timers = s.timers[:n+1]
	s.timers[n] = tm
}

//go:norace
func (s *Sim) retire(tm *simTimer) {
	n := len(s.retired)
	if n == cap(s.retired) {
		bigger := make([]*simTimer, n, 2*n+16)
		for i := 0; i < n; i++ {
			bigger[i] = s.retired[i]
		}
		s.retired = bigger
	}
	s.retired = s.retired[:n+1]
	s.retired[n] = tm
}

// SimNow returns the run's simulated time.
//
//go:norace
func (s *Sim) SimNow() time.Duration { return s.now }

// Now replaces time.Now in the scratch copy of the library.
//
//go:norace
func Now() time.Time {
	s := cur
	if !s.inTask() {
		if s != nil {
			return simEpoch.Add(s.now)
		}
		return time.Now()
	}
	s.timeUsed = true
	if s.ClockJumpNum > 0 && s.Sched.Coin(s.ClockJumpNum, FaultDen) {
		d := time.Duration(1+s.Sched.Draw(1000)) * s.ClockJumpMax / 1000
		s.Counters[CtFaultClockJump]++
		s.mix(0xd000)
		s.Tracef("  FAULT clock jump: +%d ns", int64(d))
		s.advance(s.now + d)
	}
	return simEpoch.Add(s.now)
}

// Since replaces time.Since.
//
//go:norace
func Since(t time.Time) time.Duration { return Now().Sub(t) }

// Until replaces time.Until.
//
//go:norace
func Until(t time.Time) time.Duration { return t.Sub(Now()) }

// Sleep replaces time.Sleep: the task waits cooperatively until the simulated
// clock has passed the deadline.
//
//go:norace
func Sleep(d time.Duration) {
	s := cur
	if !s.inTask() {
		time.Sleep(d)
		return
	}
	s.timeUsed = true
	tm := &simTimer{at: s.now + d}
	s.addTimer(tm)
	for !tm.dead {
		if !Blocked() {
			return
		}
	}
}

// After replaces time.After.
//
//go:norace
func After(d time.Duration) <-chan time.Time {
	s := cur
	if !s.inTask() {
		return time.After(d)
	}
	s.timeUsed = true
	tm := &simTimer{at: s.now + d, ch: make(chan time.Time, 1)}
	s.addTimer(tm)
	return tm.ch
}

// Tick replaces time.Tick.
//
//go:norace
func Tick(d time.Duration) <-chan time.Time {
	s := cur
	if !s.inTask() || d <= 0 {
		return time.Tick(d)
	}
	s.timeUsed = true
	tm := &simTimer{at: s.now + d, period: d, ch: make(chan time.Time, 1)}
	s.addTimer(tm)
	return tm.ch
}

// Timers and tickers. The library keeps a real *time.Timer / *time.Ticker
// (their types cannot be faked), armed for the far future; the simulator
// decides when it fires: the real timer is reset to "now" and the simulator
// waits until its channel holds the tick, so delivery happens at a
// deterministic point. Stop and Reset calls are re-pointed here as well.

const farFuture = 1000000 * time.Hour

//go:norace
func (s *Sim) findTimer(key interface{}) *simTimer {
	for i := 0; i < len(s.timers); i++ {
		if s.timers[i].key == key {
			return s.timers[i]
		}
	}
	for i := len(s.retired) - 1; i >= 0; i-- {
		if tm := s.retired[i]; tm.key == key {
			// back among the timers the clock scans: it may be reset now
			for k := i; k+1 < len(s.retired); k++ {
				s.retired[k] = s.retired[k+1]
			}
			s.retired = s.retired[:len(s.retired)-1]
			s.addTimer(tm)
			return tm
		}
	}
	return nil
}

// fireReal makes the real timer or ticker behind tm deliver now. It is a
// named //go:norace method and not a closure: closures are instrumented even
// inside //go:norace functions, and this code reads fields the time package
// wrote from inside a task.
//
//go:norace
func (tm *simTimer) fireReal(s *Sim) {
	switch {
	case tm.rt != nil:
		if len(tm.rt.C) == 0 {
			tm.rt.Reset(time.Nanosecond)
			for len(tm.rt.C) == 0 {
				runtime.Gosched()
			}
		}
		tm.rt.Reset(farFuture)
	case tm.tk != nil:
		if len(tm.tk.C) == 0 { // an unread tick is pending otherwise: the new one is dropped, as in the runtime
			tm.tk.Reset(time.Nanosecond)
			for len(tm.tk.C) == 0 {
				runtime.Gosched()
			}
		}
		tm.tk.Reset(farFuture)
	case tm.fn != nil:
		s.startTask("timer-func", tm.fn)
	}
}

// NewTimer replaces time.NewTimer.
//
//go:norace
func NewTimer(d time.Duration) *time.Timer {
	s := cur
	if !s.inTask() {
		return time.NewTimer(d)
	}
	s.timeUsed = true
	rt := time.NewTimer(farFuture)
	tm := &simTimer{at: s.now + d, key: rt, rt: rt}
	s.addTimer(tm)
	return rt
}

// AfterFunc replaces time.AfterFunc: f runs as a simulated task of its own.
//
//go:norace
func AfterFunc(d time.Duration, f func()) *time.Timer {
	s := cur
	if !s.inTask() {
		return time.AfterFunc(d, f)
	}
	s.timeUsed = true
	rt := time.AfterFunc(farFuture, func() {})
	tm := &simTimer{at: s.now + d, key: rt}
	// The call AfterFunc(d, f) happens before f runs.
	raceReleaseMerge(unsafe.Pointer(rt))
	tm.fn = func() {
		raceAcquire(unsafe.Pointer(rt))
		f()
	}
	s.addTimer(tm)
	return rt
}

// NewTicker replaces time.NewTicker.
//
//go:norace
func NewTicker(d time.Duration) *time.Ticker {
	s := cur
	if !s.inTask() || d <= 0 {
		return time.NewTicker(d)
	}
	s.timeUsed = true
	rt := time.NewTicker(farFuture)
	tm := &simTimer{at: s.now + d, period: d, key: rt, tk: rt}
	s.addTimer(tm)
	return rt
}

// TimerStop replaces t.Stop().
//
//go:norace
func TimerStop(t *time.Timer) bool {
	s := cur
	if s != nil {
		if tm := s.findTimer(t); tm != nil {
			active := !tm.dead
			tm.dead = true
			t.Stop()
			return active
		}
	}
	return t.Stop()
}

// TimerReset replaces t.Reset(d).
//
//go:norace
func TimerReset(t *time.Timer, d time.Duration) bool {
	s := cur
	if s != nil {
		if tm := s.findTimer(t); tm != nil {
			active := !tm.dead
			tm.dead = false
			tm.at = s.now + d
			return active
		}
	}
	return t.Reset(d)
}

// TickerStop replaces t.Stop() on a ticker.
//
//go:norace
func TickerStop(t *time.Ticker) {
	if s := cur; s != nil {
		if tm := s.findTimer(t); tm != nil {
			tm.dead = true
		}
	}
	t.Stop()
}

// TickerReset replaces t.Reset(d) on a ticker.
//
//go:norace
func TickerReset(t *time.Ticker, d time.Duration) {
	if s := cur; s != nil {
		if tm := s.findTimer(t); tm != nil && d > 0 {
			tm.dead = false
			tm.period = d
			tm.at = s.now + d
			return
		}
	}
	t.Reset(d)
}
