//go:build race

package simrt

import (
	"runtime"
	"unsafe"
)

// RaceEnabled reports whether this binary was built with -race.
const RaceEnabled = true

func raceDisable()                      { runtime.RaceDisable() }
func raceEnable()                       { runtime.RaceEnable() }
func raceAcquire(p unsafe.Pointer)      { runtime.RaceAcquire(p) }
func raceReleaseMerge(p unsafe.Pointer) { runtime.RaceReleaseMerge(p) }

// RaceErrors returns the number of race reports so far in this process.
func RaceErrors() int { return runtime.RaceErrors() }
