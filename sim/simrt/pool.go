package simrt

import (
	"sync"
	"unsafe"
)

type noCopy struct{}

func (*noCopy) Lock()   {}
func (*noCopy) Unlock() {}

// Pool is the executable contract of sync.Pool: Get returns some object
// previously Put and not since returned, or New(); objects may vanish at any
// time; Put(x) synchronises-before the Get that returns x. Which object,
// whether it vanished, and when the collector strikes are all drawn from the
// current Sim's schedule stream.
//
// It has the method set and the New field of sync.Pool and is substituted for
// it by an AST rewrite of a scratch copy of the library.
type Pool struct {
	noCopy noCopy
	New    func() any
	st     *poolState
}

type poolState struct {
	id      int
	sim     *Sim
	primary []any
	victim  []any
	real    *sync.Pool
}

var fallback = NewSim(NewReplayStream(nil))

//go:norace
func (p *Pool) state() *poolState {
	if p.st == nil {
		s := cur
		if s == nil {
			s = fallback
		}
		st := &poolState{id: len(s.pools), sim: s}
		if s.Passthrough {
			st.real = &sync.Pool{}
		}
		n := len(s.pools)
		bigger := make([]*poolState, n+1)
		for i := 0; i < n; i++ {
			bigger[i] = s.pools[i]
		}
		bigger[n] = st
		s.pools = bigger
		p.st = st
	}
	return p.st
}

//go:norace
func dataPtr(x any) unsafe.Pointer {
	return (*[2]unsafe.Pointer)(unsafe.Pointer(&x))[1]
}

//go:norace
func push(l []any, x any) []any {
	n := len(l)
	if n == cap(l) {
		bigger := make([]any, n, 2*n+8)
		for i := 0; i < n; i++ {
			bigger[i] = l[i]
		}
		l = bigger
	}
	l = l[:n+1]
	l[n] = x
	return l
}

//go:norace
func removeAt(l []any, i int) ([]any, any) {
	x := l[i]
	for k := i; k+1 < len(l); k++ {
		l[k] = l[k+1]
	}
	l[len(l)-1] = nil
	return l[:len(l)-1], x
}

// Put adds x to the pool.
//
//go:norace
func (p *Pool) Put(x any) {
	if x == nil {
		return
	}
	st := p.state()
	s := st.sim
	s.Counters[CtPoolPut]++
	id := s.ObjID(dataPtr(x))
	if st.real != nil {
		s.mix(0x5000 | uint64(id))
		s.Tracef("  pool%d.Put(obj#%d) [real sync.Pool]", st.id, id)
		st.real.Put(x)
		return
	}
	// The documented edge: Put(x) synchronises-before the Get returning x.
	// Annotated on the object itself (the real pool hashes objects into 128
	// buckets, which only adds accidental edges).
	raceReleaseMerge(dataPtr(x))
	if s.Sched.Coin(s.PutDropNum, FaultDen) {
		s.Counters[CtFaultPutDrop]++
		s.mix(0x1000 | uint64(id))
		s.Tracef("  pool%d.Put(obj#%d) FAULT putdrop: object discarded", st.id, id)
		return
	}
	s.mix(0x2000 | uint64(id))
	s.Tracef("  pool%d.Put(obj#%d)", st.id, id)
	st.primary = push(st.primary, x)
}

// Get selects an object from the pool, or calls New.
//
//go:norace
func (p *Pool) Get() any {
	st := p.state()
	s := st.sim
	s.Counters[CtPoolGet]++
	if st.real != nil {
		x := st.real.Get()
		if x != nil {
			s.Counters[CtPoolGetHit]++
			id := s.ObjID(dataPtr(x))
			s.mix(0x6000 | uint64(id))
			s.Tracef("  pool%d.Get() -> obj#%d recycled [real sync.Pool]", st.id, id)
			return x
		}
		return p.fresh(st)
	}
	np, nv := len(st.primary), len(st.victim)
	if np+nv > 0 {
		if s.Sched.Coin(s.MissNum, FaultDen) {
			s.Counters[CtFaultMiss]++
			s.mix(0x3000)
			s.Tracef("  pool%d.Get() FAULT miss: %d available objects ignored", st.id, np+nv)
			return p.fresh(st)
		}
		var x any
		switch s.Policy {
		case PolicyLIFO:
			if np > 0 {
				st.primary, x = removeAt(st.primary, np-1)
			} else {
				st.victim, x = removeAt(st.victim, nv-1)
			}
		case PolicyFIFO:
			if np > 0 {
				st.primary, x = removeAt(st.primary, 0)
			} else {
				st.victim, x = removeAt(st.victim, 0)
			}
		default:
			k := s.Sched.Draw(np + nv)
			if k < np {
				st.primary, x = removeAt(st.primary, k)
			} else {
				st.victim, x = removeAt(st.victim, k-np)
			}
		}
		raceAcquire(dataPtr(x))
		s.Counters[CtPoolGetHit]++
		id := s.ObjID(dataPtr(x))
		s.mix(0x4000 | uint64(id))
		s.Tracef("  pool%d.Get() -> obj#%d recycled", st.id, id)
		return x
	}
	return p.fresh(st)
}

//go:norace
func (p *Pool) fresh(st *poolState) any {
	s := st.sim
	s.Counters[CtPoolGetNew]++
	if p.New == nil {
		s.Tracef("  pool%d.Get() -> nil (no New)", st.id)
		return nil
	}
	x := p.New()
	if x != nil {
		id := s.ObjID(dataPtr(x))
		s.mix(0x7000 | uint64(id))
		s.Tracef("  pool%d.Get() -> obj#%d from New()", st.id, id)
	}
	return x
}

// GC is the collector fault: every pool drops its victim list and demotes its
// primary list, exactly the two-stage clearing of the runtime.
//
//go:norace
func (s *Sim) GC() {
	s.Counters[CtFaultGC]++
	s.mix(0x8000)
	if n := len(s.GCSteps); n < 4096 {
		if n == cap(s.GCSteps) {
			bigger := make([]int, n, 2*n+16)
			for i := 0; i < n; i++ {
				bigger[i] = s.GCSteps[i]
			}
			s.GCSteps = bigger
		}
		s.GCSteps = s.GCSteps[:n+1]
		s.GCSteps[n] = s.step
	}
	dropped := 0
	for i := 0; i < len(s.pools); i++ {
		st := s.pools[i]
		if st.real != nil {
			continue
		}
		dropped += len(st.victim)
		st.victim = st.primary
		st.primary = nil
	}
	s.Counters[CtGCDropped] += int64(dropped)
	s.Tracef("  FAULT gc: primary->victim, %d victim objects dropped", dropped)
	if s.Passthrough && s.realGCs < 64 {
		// real collections are expensive: a run forces at most 64 of them
		s.realGCs++
		realGC()
	}
	// Finalizers the library registered run now, as a task of their own.
	if run := s.collect(); run != nil {
		s.Tracef("  gc: finalizers of unreachable objects run as a new task")
		s.startTask("finalizers", run)
	}
}

// Available returns how many objects the stub pools currently hold.
//
//go:norace
func (s *Sim) Available() int {
	n := 0
	for i := 0; i < len(s.pools); i++ {
		n += len(s.pools[i].primary) + len(s.pools[i].victim)
	}
	return n
}
