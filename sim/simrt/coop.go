package simrt

import (
	"runtime"
	"sync"
	"sync/atomic"
	"unsafe"
)

// Cooperative versions of the blocking operations a modified library may
// use. The rewriter substitutes them in the scratch copy, so that a task that
// cannot proceed hands control back to the scheduler instead of parking its
// goroutine inside the Go runtime (which would park the whole simulation).
// Outside a simulated task they fall back to the real blocking operation.

// LockMutex replaces m.Lock().
//
//go:norace
func LockMutex(m *sync.Mutex) {
	for !m.TryLock() {
		if !Blocked() {
			m.Lock()
			return
		}
	}
}

// LockRW replaces m.Lock() on a sync.RWMutex.
//
//go:norace
func LockRW(m *sync.RWMutex) {
	for !m.TryLock() {
		if !Blocked() {
			m.Lock()
			return
		}
	}
}

// RLockRW replaces m.RLock().
//
//go:norace
func RLockRW(m *sync.RWMutex) {
	for !m.TryRLock() {
		if !Blocked() {
			m.RLock()
			return
		}
	}
}

type tryLocker interface{ TryLock() bool }

// LockLocker locks a sync.Locker cooperatively when it can TryLock; otherwise
// it locks for real and inner pre-emption is suspended until Unlocking().
//
//go:norace
func LockLocker(l sync.Locker) {
	if tl, ok := l.(tryLocker); ok {
		for !tl.TryLock() {
			if !Blocked() {
				l.Lock()
				return
			}
		}
		progress()
		return
	}
	l.Lock()
	Locked()
}

// CondWait replaces c.Wait(): spurious wake-ups are legal for condition
// variables, so "unlock, let others run, lock again" is a valid Wait.
//
//go:norace
func CondWait(c *sync.Cond) {
	s := cur
	if !s.inTask() {
		c.Wait()
		return
	}
	c.L.Unlock()
	Blocked()
	LockLocker(c.L)
}

// mailItem is a value in flight on an unbuffered channel between two
// simulated tasks. Two tasks that both poll with non-blocking operations
// would never meet on an unbuffered channel (each succeeds only if the other
// is parked inside the runtime), so the rendezvous is emulated: the sender
// posts the value and waits until a receiver has taken it.
type mailItem struct {
	ch    unsafe.Pointer
	val   any
	taken bool
}

//go:norace
func (s *Sim) post(it *mailItem) {
	n := len(s.mail)
	if n == cap(s.mail) {
		bigger := make([]*mailItem, n, 2*n+8)
		for i := 0; i < n; i++ {
			bigger[i] = s.mail[i]
		}
		s.mail = bigger
	}
	s.mail = s.mail[:n+1]
	s.mail[n] = it
}

//go:norace
func (s *Sim) take(ch unsafe.Pointer) *mailItem {
	for i := 0; i < len(s.mail); i++ {
		if it := s.mail[i]; it.ch == ch && !it.taken {
			it.taken = true
			for k := i; k+1 < len(s.mail); k++ {
				s.mail[k] = s.mail[k+1]
			}
			s.mail = s.mail[:len(s.mail)-1]
			return it
		}
	}
	return nil
}

// Send replaces "ch <- v".
//
//go:norace
func Send[T any](ch chan<- T, v T) {
	s := cur
	var it *mailItem
	for {
		if it == nil {
			select {
			case ch <- v:
				progress()
				return
			default:
			}
			if ch != nil && cap(ch) == 0 && s.inTask() {
				it = &mailItem{ch: dataPtr(ch), val: v}
				raceReleaseMerge(it.ch) // a send synchronises-before the matching receive
				s.post(it)
			}
		} else if it.taken {
			raceAcquire(unsafe.Pointer(it)) // ... and the receive before the completion of the send
			progress()
			return
		}
		if !Blocked() {
			ch <- v
			return
		}
	}
}

//go:norace
func recvMail[T any](ch <-chan T) (v T, ok bool) {
	s := cur
	if ch == nil || cap(ch) != 0 || !s.inTask() {
		return v, false
	}
	it := s.take(dataPtr(ch))
	if it == nil {
		return v, false
	}
	raceAcquire(it.ch)
	raceReleaseMerge(unsafe.Pointer(it))
	progress()
	return it.val.(T), true
}

// Recv replaces "<-ch".
//
//go:norace
func Recv[T any](ch <-chan T) T {
	for {
		select {
		case v := <-ch:
			progress()
			return v
		default:
		}
		if v, ok := recvMail(ch); ok {
			return v
		}
		if !blockedRecv(ch) {
			return <-ch
		}
	}
}

// Recv2 replaces "v, ok := <-ch".
//
//go:norace
func Recv2[T any](ch <-chan T) (T, bool) {
	for {
		select {
		case v, ok := <-ch:
			progress()
			return v, ok
		default:
		}
		if v, ok := recvMail(ch); ok {
			return v, true
		}
		if !blockedRecv(ch) {
			v, ok := <-ch
			return v, ok
		}
	}
}

// Receivers parked on unbuffered channels - in Recv/Recv2, or in a rewritten
// select statement that found no case ready - are registered, so that a send
// case of a select (TrySend) can tell that a receiver is ready, as the runtime
// can for a goroutine parked in a receive. A waiter is served at most once:
// the sender claims it and posts the value, which the waiter takes when it
// runs next (a select then tries the claimed case first).
type chanWaiter struct {
	chans   []unsafe.Pointer // per case; nil for cases that are not receives from an unbuffered channel
	claimed int              // index of the case a sender has served, or -1
}

//go:norace
func (s *Sim) addWaiter(chans []unsafe.Pointer) *chanWaiter {
	w := &chanWaiter{chans: chans, claimed: -1}
	for i := 0; i < len(chans); i++ {
		if chans[i] != nil {
			// on an unbuffered channel the receive synchronises-before the
			// completion of the matching send: what this receiver did before it
			// parked is ordered before what a sender served by TrySend does next
			raceReleaseMerge(unsafe.Add(chans[i], 8))
		}
	}
	n := len(s.waiters)
	if n == cap(s.waiters) {
		bigger := make([]*chanWaiter, n, 2*n+8)
		for i := 0; i < n; i++ {
			bigger[i] = s.waiters[i]
		}
		s.waiters = bigger
	}
	s.waiters = s.waiters[:n+1]
	s.waiters[n] = w
	return w
}

//go:norace
func (s *Sim) removeWaiter(w *chanWaiter) {
	for i := 0; i < len(s.waiters); i++ {
		if s.waiters[i] == w {
			for k := i; k+1 < len(s.waiters); k++ {
				s.waiters[k] = s.waiters[k+1]
			}
			s.waiters[len(s.waiters)-1] = nil
			s.waiters = s.waiters[:len(s.waiters)-1]
			return
		}
	}
}

// claimWaiter finds the longest waiting unserved receiver on the channel.
//
//go:norace
func (s *Sim) claimWaiter(p unsafe.Pointer) bool {
	for i := 0; i < len(s.waiters); i++ {
		w := s.waiters[i]
		if w.claimed >= 0 {
			continue
		}
		for k := 0; k < len(w.chans); k++ {
			if w.chans[k] == p {
				w.claimed = k
				return true
			}
		}
	}
	return false
}

// blockedRecv parks the task as a receiver on ch until the scheduler runs it
// again; false if the caller is not a simulated task.
//
//go:norace
func blockedRecv[T any](ch <-chan T) bool {
	s := cur
	if ch == nil || cap(ch) != 0 || !s.inTask() {
		return Blocked()
	}
	w := s.addWaiter([]unsafe.Pointer{dataPtr(ch)})
	ok := Blocked()
	s.removeWaiter(w)
	return ok
}

// SelectBlocked is what a rewritten select statement without default does
// when no case is ready: the task parks, registered as a receiver on the
// unbuffered channels of its receive cases (chans has one entry per case, nil
// for the others). It returns the index of the case a sender has served in
// the meantime, or -1.
//
//go:norace
func SelectBlocked(chans ...any) int {
	s := cur
	if !s.inTask() {
		RealBlock()
		return -1
	}
	ptrs := make([]unsafe.Pointer, len(chans))
	found := false
	for i := 0; i < len(chans); i++ {
		if chans[i] == nil {
			continue
		}
		if p := dataPtr(chans[i]); p != nil && chanCap(p) == 0 {
			ptrs[i] = p
			found = true
		}
	}
	if !found {
		Blocked()
		return -1
	}
	w := s.addWaiter(ptrs)
	Blocked()
	s.removeWaiter(w)
	return w.claimed
}

// chanCap reads the capacity of a channel from its runtime header (qcount
// uint, dataqsiz uint, ...): the static type is not known here.
//
//go:norace
func chanCap(p unsafe.Pointer) uint {
	return *(*uint)(unsafe.Add(p, unsafe.Sizeof(uint(0))))
}

// TryRecv is one receive case of a rewritten select statement: a
// non-blocking receive that also sees a value a simulated sender has posted
// on an unbuffered channel. got reports whether the case fired; ok is the
// second result of the receive (false: closed channel).
//
//go:norace
func TryRecv[T any](ch <-chan T) (v T, ok bool, got bool) {
	select {
	case v, ok = <-ch:
		progress()
		return v, ok, true
	default:
	}
	if v, got = recvMail(ch); got {
		return v, true, true
	}
	return v, false, false
}

// TrySend is one send case of a rewritten select statement: a non-blocking
// send that also succeeds on an unbuffered channel when a simulated receiver
// is parked in a receive on it (the value is posted for that receiver).
//
//go:norace
func TrySend[T any](ch chan<- T, v T) bool {
	select {
	case ch <- v:
		progress()
		return true
	default:
	}
	s := cur
	if ch == nil || cap(ch) != 0 || !s.inTask() {
		return false
	}
	p := dataPtr(ch)
	if !s.claimWaiter(p) {
		return false
	}
	it := &mailItem{ch: p, val: v}
	raceReleaseMerge(it.ch)
	raceAcquire(unsafe.Add(p, 8))
	s.post(it)
	progress()
	return true
}

// CoopLock replaces x.Lock() / x.RLock() on a sync.Mutex or sync.RWMutex: it
// is given the method values x.TryLock (or x.TryRLock) and x.Lock (x.RLock).
//
//go:norace
func CoopLock(try func() bool, lock func()) {
	for !try() {
		if !Blocked() {
			lock()
			return
		}
	}
	progress()
}

//go:norace
func progress() {
	if s := cur; s != nil {
		s.coopProgress++
	}
}

// CondWaitWith replaces c.Wait(): it is given the method value c.Wait and c.L.
//
//go:norace
func CondWaitWith(wait func(), l sync.Locker) {
	s := cur
	if !s.inTask() {
		wait()
		return
	}
	l.Unlock()
	Blocked()
	LockLocker(l)
}

// Condition variables, faithfully. In Go a Wait "cannot return unless awoken
// by Broadcast or Signal" (there are no spurious wake-ups), Signal wakes the
// goroutine that has waited longest, and Signal/Broadcast synchronise-before
// the Wait they unblock. c.Wait(), c.Signal() and c.Broadcast() on a plain
// sync.Cond are re-pointed here; waiters are kept in arrival order.

type condWaiter struct {
	woken bool
	gen   int64
}

type condShadow struct {
	c       *sync.Cond
	waiters []*condWaiter
}

// foreignCondGen counts Signal/Broadcast calls made by goroutines outside the
// simulation (they cannot touch the scheduler's tables): simulated waiters
// then wake conservatively.
var foreignCondGen atomic.Int64

//go:norace
func (s *Sim) condOf(c *sync.Cond) *condShadow {
	for i := 0; i < len(s.conds); i++ {
		if s.conds[i].c == c {
			return s.conds[i]
		}
	}
	sh := &condShadow{c: c}
	n := len(s.conds)
	bigger := make([]*condShadow, n+1)
	for i := 0; i < n; i++ {
		bigger[i] = s.conds[i]
	}
	bigger[n] = sh
	s.conds = bigger
	return sh
}

// CondWaitOn replaces c.Wait().
//
//go:norace
func CondWaitOn(c *sync.Cond) {
	s := cur
	if !s.inTask() {
		c.Wait()
		return
	}
	sh := s.condOf(c)
	w := &condWaiter{gen: foreignCondGen.Load()}
	n := len(sh.waiters)
	bigger := make([]*condWaiter, n+1)
	for i := 0; i < n; i++ {
		bigger[i] = sh.waiters[i]
	}
	bigger[n] = w
	sh.waiters = bigger
	c.L.Unlock()
	for !w.woken && foreignCondGen.Load() == w.gen {
		if !Blocked() {
			break
		}
	}
	if !w.woken { // woken by a goroutine outside the simulation: leave the queue
		for i := 0; i < len(sh.waiters); i++ {
			if sh.waiters[i] == w {
				for k := i; k+1 < len(sh.waiters); k++ {
					sh.waiters[k] = sh.waiters[k+1]
				}
				sh.waiters = sh.waiters[:len(sh.waiters)-1]
				break
			}
		}
	}
	raceAcquire(unsafe.Pointer(c))
	progress()
	LockLocker(c.L)
}

// CondSignal replaces c.Signal(): the longest waiting simulated task proceeds.
//
//go:norace
func CondSignal(c *sync.Cond) {
	s := cur
	if !s.inTask() {
		foreignCondGen.Add(1)
		c.Signal()
		return
	}
	raceReleaseMerge(unsafe.Pointer(c))
	sh := s.condOf(c)
	if len(sh.waiters) > 0 {
		sh.waiters[0].woken = true
		for k := 0; k+1 < len(sh.waiters); k++ {
			sh.waiters[k] = sh.waiters[k+1]
		}
		sh.waiters = sh.waiters[:len(sh.waiters)-1]
		progress()
	}
	c.Signal() // goroutines outside the simulation wait for real
}

// CondBroadcast replaces c.Broadcast().
//
//go:norace
func CondBroadcast(c *sync.Cond) {
	s := cur
	if !s.inTask() {
		foreignCondGen.Add(1)
		c.Broadcast()
		return
	}
	raceReleaseMerge(unsafe.Pointer(c))
	sh := s.condOf(c)
	for i := 0; i < len(sh.waiters); i++ {
		sh.waiters[i].woken = true
	}
	if len(sh.waiters) > 0 {
		progress()
	}
	sh.waiters = sh.waiters[:0]
	c.Broadcast()
}

// RealBlock is what the default clause added to a blocking select does when
// it is not executed by a simulated task: let others run and try again.
func RealBlock() { runtime.Gosched() }

// WaitGroups. There is no way to ask a sync.WaitGroup whether Wait would
// block, so Add and Done are re-pointed too and keep a shadow counter; Wait
// yields cooperatively until the shadow counter is zero and then calls the
// real Wait (which returns at once and provides the synchronisation).

type wgShadow struct {
	wg *sync.WaitGroup
	n  int
}

//go:norace
func (s *Sim) shadowOf(wg *sync.WaitGroup) *wgShadow {
	for i := 0; i < len(s.wgs); i++ {
		if s.wgs[i].wg == wg {
			return s.wgs[i]
		}
	}
	sh := &wgShadow{wg: wg}
	n := len(s.wgs)
	bigger := make([]*wgShadow, n+1)
	for i := 0; i < n; i++ {
		bigger[i] = s.wgs[i]
	}
	bigger[n] = sh
	s.wgs = bigger
	return sh
}

// WGAdd replaces wg.Add(n).
//
//go:norace
func WGAdd(wg *sync.WaitGroup, n int) {
	if s := cur; s != nil {
		s.shadowOf(wg).n += n
	}
	wg.Add(n)
}

// WGDone replaces wg.Done().
//
//go:norace
func WGDone(wg *sync.WaitGroup) {
	if s := cur; s != nil {
		s.shadowOf(wg).n--
		progress()
	}
	wg.Done()
}

// WGWait replaces wg.Wait().
//
//go:norace
func WGWait(wg *sync.WaitGroup) {
	s := cur
	if s.inTask() {
		sh := s.shadowOf(wg)
		for sh.n > 0 {
			if !Blocked() {
				break
			}
		}
	}
	wg.Wait()
}

// AfterOp wraps an atomic operation that is part of a larger expression: the
// value passes through and an inner yield point follows the operation.
//
//go:norace
func AfterOp[T any](v T) T {
	PointAt(0)
	return v
}

// OnceFunc, OnceValue and OnceValues replace their sync namesakes: while the
// wrapped function runs the task is not pre-empted at inner points (as for
// once.Do), because a second caller would park inside the real sync.Once.

func OnceFunc(f func()) func() {
	return sync.OnceFunc(func() {
		Locked()
		defer Unlocking()
		f()
	})
}

func OnceValue[T any](f func() T) func() T {
	return sync.OnceValue(func() T {
		Locked()
		defer Unlocking()
		return f()
	})
}

func OnceValues[T1, T2 any](f func() (T1, T2)) func() (T1, T2) {
	return sync.OnceValues(func() (T1, T2) {
		Locked()
		defer Unlocking()
		return f()
	})
}

// SendTo and TrySender fix the element type from the channel alone, so that
// the value undergoes the ordinary assignment conversion (a concrete value
// sent on a channel of interface type), which type inference over both
// arguments would reject.
func SendTo[T any](ch chan<- T) func(T) {
	return func(v T) { Send(ch, v) }
}

func TrySender[T any](ch chan<- T) func(T) bool {
	return func(v T) bool { return TrySend(ch, v) }
}
