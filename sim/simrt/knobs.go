package simrt

import "runtime"

// Environment knobs a modified library may consult. In the scratch copy
// runtime.GOMAXPROCS / runtime.NumCPU and the top-level functions of
// math/rand (and math/rand/v2) are re-pointed here, so that code paths chosen
// by "how many processors" are varied per run, and "random" decisions inside
// the library come from the run's schedule tape (replayable, minimisable).

// Procs is the per-run value of GOMAXPROCS and NumCPU (0: not drawn, use 4).
//
//go:norace
func (s *Sim) procs() int {
	if s == nil || s.Procs == 0 {
		return 4
	}
	return s.Procs
}

// GOMAXPROCS replaces runtime.GOMAXPROCS: it never changes the real setting
// and reports the run's simulated processor count.
//
//go:norace
func GOMAXPROCS(n int) int {
	if cur == nil {
		return runtime.GOMAXPROCS(n)
	}
	return cur.procs()
}

// NumCPU replaces runtime.NumCPU.
//
//go:norace
func NumCPU() int {
	if cur == nil {
		return runtime.NumCPU()
	}
	return cur.procs()
}

//go:norace
func randBits() uint64 {
	s := cur
	if s == nil {
		return 0x9e3779b97f4a7c15
	}
	s.Counters[CtRandDraws]++
	hi := uint64(s.Sched.Draw(1 << 16))
	return hi<<48 ^ uint64(s.Sched.Draw(1<<16))<<32 ^ uint64(s.Sched.Draw(1<<16))<<16 ^ uint64(s.Sched.Draw(1<<16))
}

//go:norace
func randn(n uint64) uint64 {
	if n <= 1 {
		return 0
	}
	if s := cur; s != nil && n <= 1<<30 {
		s.Counters[CtRandDraws]++
		return uint64(s.Sched.Draw(int(n)))
	}
	return randBits() % n
}

// The math/rand top-level functions.

func RandInt() int             { return int(randBits() >> 1) }
func RandIntn(n int) int       { return int(randn(uint64(n))) }
func RandInt31() int32         { return int32(randBits() >> 33) }
func RandInt31n(n int32) int32 { return int32(randn(uint64(n))) }
func RandInt63() int64         { return int64(randBits() >> 1) }
func RandInt63n(n int64) int64 { return int64(randn(uint64(n))) }
func RandUint32() uint32       { return uint32(randBits() >> 32) }
func RandUint64() uint64       { return randBits() }
func RandFloat64() float64     { return float64(randBits()>>11) / (1 << 53) }
func RandFloat32() float32     { return float32(randBits()>>40) / (1 << 24) }
func RandSeed(int64)           {}
func RandShuffle(n int, swap func(i, j int)) {
	for i := n - 1; i > 0; i-- {
		swap(i, int(randn(uint64(i+1))))
	}
}
func RandPerm(n int) []int {
	p := make([]int, n)
	for i := range p {
		p[i] = i
	}
	RandShuffle(n, func(i, j int) { p[i], p[j] = p[j], p[i] })
	return p
}

// math/rand/v2 names that differ.

func RandIntN(n int) int          { return RandIntn(n) }
func RandInt64N(n int64) int64    { return RandInt63n(n) }
func RandInt32N(n int32) int32    { return RandInt31n(n) }
func RandUint32N(n uint32) uint32 { return uint32(randn(uint64(n))) }
func RandUint64N(n uint64) uint64 { return randn(n) }
func RandUintN(n uint) uint       { return uint(randn(uint64(n))) }
func RandInt64() int64            { return RandInt63() }
func RandInt32() int32            { return RandInt31() }
