package simrt

func getg() uintptr
