#include "textflag.h"

// func getg() uintptr
// The current goroutine's g pointer (amd64: g lives in thread-local storage
// for ABI0 code). Used only to tell whether Point() is being called by the
// task the scheduler released or by some other goroutine.
TEXT ·getg(SB),NOSPLIT,$0-8
	MOVQ (TLS), R14
	MOVQ R14, ret+0(FP)
	RET
