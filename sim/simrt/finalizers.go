package simrt

import (
	"reflect"
	"runtime"
	"sync"
)

// Finalizers under simulation. runtime.SetFinalizer in the scratch copy of
// the library is re-pointed to SetFinalizer below: the real finalizer that is
// registered only *enqueues* the object; the library's finalizer function
// runs later, as a simulated task, when the simulator's gc fault event
// collects: the event forces real collections until the runtime's finalizer
// goroutine is idle, so the set of objects finalized by one gc event is
// exactly the set of registered objects unreachable at that event (all tasks
// are parked at deterministic points) and they run in registration order.

type finEntry struct {
	seq int
	fn  reflect.Value
	obj reflect.Value // set when the runtime found the object unreachable
}

type finState struct {
	mu     sync.Mutex
	queue  []*finEntry
	regs   int
	seq    int
	rounds int
}

// maxCollections bounds the real collections of one run (each costs two
// forced GC cycles); later gc events of the run only age the stub pools.
const maxCollections = 6

type finSentinel struct {
	p   *int
	pad [2]uint64
}

// SetFinalizer replaces runtime.SetFinalizer.
//
//go:norace
func SetFinalizer(obj any, finalizer any) {
	s := cur
	if s == nil || finalizer == nil || s.finishedRun {
		runtime.SetFinalizer(obj, finalizer)
		return
	}
	ov := reflect.ValueOf(obj)
	if ov.Kind() != reflect.Ptr {
		runtime.SetFinalizer(obj, finalizer) // let the runtime produce its own panic
		return
	}
	s.fin.mu.Lock()
	s.fin.seq++
	s.fin.regs++
	e := &finEntry{seq: s.fin.seq, fn: reflect.ValueOf(finalizer)}
	s.fin.mu.Unlock()
	// SetFinalizer(x, f) synchronises-before the call f(x).
	raceReleaseMerge(ov.UnsafePointer())
	st := &s.fin
	ft := reflect.FuncOf([]reflect.Type{ov.Type()}, nil, false)
	enqueue := reflect.MakeFunc(ft, func(args []reflect.Value) []reflect.Value {
		st.enqueue(e, args[0])
		return nil
	})
	runtime.SetFinalizer(obj, enqueue.Interface())
}

// enqueue is what the real finalizer does (on the runtime's finalizer
// goroutine). The simulator's own state is never instrumented: it is touched
// by tasks, by the scheduler (whose synchronisation the race detector is told
// to ignore) and by the finalizer goroutine, under its own mutex.
//
//go:norace
func (st *finState) enqueue(e *finEntry, obj reflect.Value) {
	st.mu.Lock()
	e.obj = obj
	st.queue = append(st.queue, e)
	st.mu.Unlock()
}

// waitFinalizerGoroutine forces a collection and returns once the runtime's
// finalizer goroutine has processed a sentinel queued by that collection.
func waitFinalizerGoroutine() {
	done := make(chan struct{})
	x := &finSentinel{p: new(int)}
	runtime.SetFinalizer(x, func(*finSentinel) { close(done) })
	x = nil
	for i := 0; ; i++ {
		runtime.GC()
		for spin := 0; spin < 200; spin++ {
			select {
			case <-done:
				return
			default:
			}
			runtime.Gosched()
		}
		if i >= 2 {
			<-done // the sentinel is queued by now; wait for the finalizer goroutine
			return
		}
	}
}

// collect is the part of the gc fault event that concerns finalizers. It
// returns the function a new task must run (nil if nothing was finalized).
//
//go:norace
func (s *Sim) collect() func() {
	s.fin.mu.Lock()
	regs := s.fin.regs
	s.fin.mu.Unlock()
	if regs == 0 || s.fin.rounds >= maxCollections {
		return nil
	}
	s.fin.rounds++
	// Two rounds: when the second sentinel has run, the whole batch queued by
	// the first collection has been processed (one goroutine, in order).
	waitFinalizerGoroutine()
	waitFinalizerGoroutine()
	s.fin.mu.Lock()
	q := s.fin.queue
	s.fin.queue = nil
	s.fin.regs -= len(q)
	s.fin.mu.Unlock()
	if len(q) == 0 {
		return nil
	}
	for i := 1; i < len(q); i++ { // registration order
		for j := i; j > 0 && q[j].seq < q[j-1].seq; j-- {
			q[j], q[j-1] = q[j-1], q[j]
		}
	}
	s.Counters[CtFinalizersRun] += int64(len(q))
	return func() {
		for _, e := range q {
			raceAcquire(e.obj.UnsafePointer())
			e.fn.Call([]reflect.Value{e.obj})
		}
	}
}

// Gosched replaces runtime.Gosched in the scratch copy: the caller lets the
// other tasks run first.
func Gosched() {
	if !Blocked() {
		runtime.Gosched()
	}
}
