package simrt

import (
	"sync"
	"unsafe"
)

// SyncMap is substituted for sync.Map in the scratch copy of the library. It
// has sync.Map's method set and documented behaviour (every operation is
// atomic; a write synchronises-before a read that observes it - annotated per
// entry, not per map, so that no accidental happens-before edge hides a race
// from the oracle), and two things the real one cannot give a simulator: the
// order in which Range visits the entries comes from the schedule tape (the
// real one ranges over a Go map, i.e. in random order), and every operation is
// followed by an inner yield point, so that check-then-act sequences built
// from Load/Store/LoadOrStore can be pre-empted in the middle.
type SyncMap struct {
	noCopy noCopy
	mu     sync.Mutex // only against goroutines outside the simulation; its own edges are hidden from the detector
	ents   []*smEntry // insertion order
}

type smEntry struct {
	key, val any
	tok      *[2]uint64 // address the happens-before edges of this entry are attached to
}

//go:norace
func (m *SyncMap) lock() {
	raceDisable()
	m.mu.Lock()
	raceEnable()
}

//go:norace
func (m *SyncMap) unlock() {
	raceDisable()
	m.mu.Unlock()
	raceEnable()
}

//go:norace
func (m *SyncMap) find(key any) int {
	for i := 0; i < len(m.ents); i++ {
		if m.ents[i].key == key {
			return i
		}
	}
	return -1
}

//go:norace
func (m *SyncMap) add(key, val any) *smEntry {
	e := &smEntry{key: key, val: val, tok: new([2]uint64)}
	n := len(m.ents)
	if n == cap(m.ents) {
		bigger := make([]*smEntry, n, 2*n+8)
		for i := 0; i < n; i++ {
			bigger[i] = m.ents[i]
		}
		m.ents = bigger
	}
	m.ents = m.ents[:n+1]
	m.ents[n] = e
	return e
}

//go:norace
func (m *SyncMap) removeAt(i int) {
	for k := i; k+1 < len(m.ents); k++ {
		m.ents[k] = m.ents[k+1]
	}
	m.ents[len(m.ents)-1] = nil
	m.ents = m.ents[:len(m.ents)-1]
}

//go:norace
func (e *smEntry) written() { raceReleaseMerge(unsafe.Pointer(e.tok)) }

//go:norace
func (e *smEntry) observed() { raceAcquire(unsafe.Pointer(e.tok)) }

// Load returns the value stored in the map for a key.
//
//go:norace
func (m *SyncMap) Load(key any) (value any, ok bool) {
	value, ok = m.load(key)
	PointAt(0)
	return value, ok
}

//go:norace
func (m *SyncMap) load(key any) (value any, ok bool) {
	m.lock()
	defer m.unlock() // comparing an uncomparable key panics, as in the real one
	if i := m.find(key); i >= 0 {
		e := m.ents[i]
		e.observed()
		value, ok = e.val, true
	}
	return value, ok
}

// Store sets the value for a key.
//
//go:norace
func (m *SyncMap) Store(key, value any) { m.Swap(key, value) }

// Swap swaps the value for a key and returns the previous value if any.
//
//go:norace
func (m *SyncMap) Swap(key, value any) (previous any, loaded bool) {
	previous, loaded = m.swap(key, value)
	PointAt(0)
	return previous, loaded
}

//go:norace
func (m *SyncMap) swap(key, value any) (previous any, loaded bool) {
	m.lock()
	defer m.unlock() // comparing an uncomparable key panics, as in the real one
	if i := m.find(key); i >= 0 {
		e := m.ents[i]
		e.observed()
		previous, loaded = e.val, true
		e.val = value
		e.written()
	} else {
		m.add(key, value).written()
	}
	return previous, loaded
}

// LoadOrStore returns the existing value for the key if present; otherwise it
// stores and returns the given value.
//
//go:norace
func (m *SyncMap) LoadOrStore(key, value any) (actual any, loaded bool) {
	actual, loaded = m.loadOrStore(key, value)
	PointAt(0)
	return actual, loaded
}

//go:norace
func (m *SyncMap) loadOrStore(key, value any) (actual any, loaded bool) {
	m.lock()
	defer m.unlock() // comparing an uncomparable key panics, as in the real one
	if i := m.find(key); i >= 0 {
		e := m.ents[i]
		e.observed()
		actual, loaded = e.val, true
	} else {
		m.add(key, value).written()
		actual = value
	}
	return actual, loaded
}

// LoadAndDelete deletes the value for a key, returning the previous value if any.
//
//go:norace
func (m *SyncMap) LoadAndDelete(key any) (value any, loaded bool) {
	value, loaded = m.loadAndDelete(key)
	PointAt(0)
	return value, loaded
}

//go:norace
func (m *SyncMap) loadAndDelete(key any) (value any, loaded bool) {
	m.lock()
	defer m.unlock() // comparing an uncomparable key panics, as in the real one
	if i := m.find(key); i >= 0 {
		e := m.ents[i]
		e.observed()
		value, loaded = e.val, true
		m.removeAt(i)
	}
	return value, loaded
}

// Delete deletes the value for a key.
//
//go:norace
func (m *SyncMap) Delete(key any) { m.LoadAndDelete(key) }

// CompareAndSwap swaps the old and new values for key if the value stored in
// the map is equal to old.
//
//go:norace
func (m *SyncMap) CompareAndSwap(key, old, new any) (swapped bool) {
	swapped = m.compareAndSwap(key, old, new)
	PointAt(0)
	return swapped
}

//go:norace
func (m *SyncMap) compareAndSwap(key, old, new any) (swapped bool) {
	m.lock()
	defer m.unlock() // comparing an uncomparable key panics, as in the real one
	if i := m.find(key); i >= 0 {
		e := m.ents[i]
		e.observed()
		if e.val == old {
			e.val = new
			e.written()
			swapped = true
		}
	}
	return swapped
}

// CompareAndDelete deletes the entry for key if its value is equal to old.
//
//go:norace
func (m *SyncMap) CompareAndDelete(key, old any) (deleted bool) {
	deleted = m.compareAndDelete(key, old)
	PointAt(0)
	return deleted
}

//go:norace
func (m *SyncMap) compareAndDelete(key, old any) (deleted bool) {
	m.lock()
	defer m.unlock() // comparing an uncomparable key panics, as in the real one
	if i := m.find(key); i >= 0 {
		e := m.ents[i]
		e.observed()
		if e.val == old {
			m.removeAt(i)
			deleted = true
		}
	}
	return deleted
}

// Clear deletes all the entries.
//
//go:norace
func (m *SyncMap) Clear() {
	m.lock()
	for i := range m.ents {
		m.ents[i] = nil
	}
	m.ents = m.ents[:0]
	m.unlock()
	PointAt(0)
}

// Range calls f sequentially for each key and value present in the map, in an
// order decided by the schedule tape. Like the real one it is no snapshot: an
// entry deleted before it is reached is skipped, a value replaced before it
// is reached is seen as replaced, entries stored during the call are not
// visited.
//
//go:norace
func (m *SyncMap) Range(f func(key, value any) bool) {
	m.lock()
	n := len(m.ents)
	snap := make([]*smEntry, n)
	for i := 0; i < n; i++ {
		snap[i] = m.ents[i]
	}
	m.unlock()
	rot, rev := 0, false
	if s := inTask(); s != nil && n >= 2 {
		s.Counters[CtMapRanges]++
		rot = s.Sched.Draw(n)
		rev = s.Sched.Draw(2) == 1
	}
	for i := 0; i < n; i++ {
		j := (i + rot) % n
		if rev {
			j = (n - 1 - i + rot) % n
		}
		e := snap[j]
		m.lock()
		k := m.find(e.key)
		var val any
		if k >= 0 {
			cur := m.ents[k]
			cur.observed()
			val = cur.val
		}
		m.unlock()
		if k < 0 {
			continue
		}
		PointAt(0)
		if !f(e.key, val) {
			break
		}
	}
	PointAt(0)
}
