package simrt

import "runtime"

// realGC runs one real collection: for a real sync.Pool that is exactly one
// primary->victim->dropped stage.
func realGC() { runtime.GC() }
