package simrt

import (
	"math"
	"reflect"
	"unsafe"
)

// Map iteration order under simulation. Go randomises the order of
// "for k := range m"; a modified library that keeps buffers in a map (a
// registry, a free set) would make the outcome of a run depend on a random
// number the tape does not hold, and replay and minimisation would fail. The
// rewriter therefore turns
//
//	for k, v := range m { body }
//
// into an iteration over simrt.MapKeys(m): the keys present when the loop
// starts, in a canonical order (by value; pointers by the order in which the
// library stored them as keys), rotated and possibly reversed by two draws
// from the schedule tape. Entries deleted before they are reached are skipped
// and entries added during the loop are not produced - both allowed by the
// language specification. Values are looked up when their key is reached.

// addrTable numbers addresses in first-seen order without keeping the
// objects alive (a map keeps its own keys alive; a number may be inherited by
// a later object at the same address, which only matters for the order).
type addrTable struct {
	keys []uintptr
	vals []int32
	used int
}

//go:norace
func (t *addrTable) number(key uintptr, add bool) (int, bool) {
	if key == 0 {
		return -1, true
	}
	if len(t.keys) == 0 {
		if !add {
			return 0, false
		}
		t.keys = make([]uintptr, 64)
		t.vals = make([]int32, 64)
	}
	mask := uintptr(len(t.keys) - 1)
	i := ((key >> 3) * 0x9e3779b97f4a7c15 >> 17) & mask
	for t.keys[i] != 0 {
		if t.keys[i] == key {
			return int(t.vals[i]), true
		}
		i = (i + 1) & mask
	}
	if !add {
		return 0, false
	}
	id := t.used
	t.keys[i] = key
	t.vals[i] = int32(id)
	t.used++
	if 2*t.used > len(t.keys) {
		oldK, oldV := t.keys, t.vals
		t.keys = make([]uintptr, 2*len(oldK))
		t.vals = make([]int32, 2*len(oldK))
		mask = uintptr(len(t.keys) - 1)
		for k := 0; k < len(oldK); k++ {
			if oldK[k] == 0 {
				continue
			}
			j := ((oldK[k] >> 3) * 0x9e3779b97f4a7c15 >> 17) & mask
			for t.keys[j] != 0 {
				j = (j + 1) & mask
			}
			t.keys[j] = oldK[k]
			t.vals[j] = oldV[k]
		}
	}
	return id, true
}

// inTask says whether the caller is the task the scheduler released (only
// then may simulator state be touched and the tape be drawn from).
//
//go:norace
func inTask() *Sim {
	s := cur
	if s == nil || s.finishedRun {
		return nil
	}
	t := s.running
	if t == nil || getg() != t.g {
		return nil
	}
	return s
}

// MapKey is inserted before "m[k] = v": pointers in the key are numbered in
// the order in which the library stores them (program order: deterministic).
//
//go:norace
func MapKey(k any) {
	s := inTask()
	if s == nil {
		return
	}
	s.noteKey(reflect.ValueOf(k), true)
}

//go:norace
func (s *Sim) noteKey(v reflect.Value, add bool) {
	switch v.Kind() {
	case reflect.Ptr, reflect.Chan, reflect.UnsafePointer:
		if _, ok := s.keyNums.number(uintptr(v.UnsafePointer()), add); !ok && !add {
			s.keyNums.number(uintptr(v.UnsafePointer()), true)
			s.Counters[CtMapKeysUnordered]++
		}
	case reflect.Interface:
		if !v.IsNil() {
			s.noteKey(v.Elem(), add)
		}
	case reflect.Struct:
		for i := 0; i < v.NumField(); i++ {
			s.noteKey(v.Field(i), add)
		}
	case reflect.Array:
		for i := 0; i < v.Len(); i++ {
			s.noteKey(v.Index(i), add)
		}
	}
}

// MapKeys returns the keys of m in the order in which the rewritten range
// statement visits them.
//
//go:norace
func MapKeys[M ~map[K]V, K comparable, V any](m M) []K {
	keys := make([]K, 0, len(m))
	for k := range m {
		keys = append(keys, k)
	}
	if len(keys) < 2 {
		return keys
	}
	s := inTask()
	if s == nil {
		return keys // outside the simulation: the runtime's order
	}
	vals := make([]reflect.Value, len(keys))
	for i := range keys {
		vals[i] = reflect.ValueOf(&keys[i]).Elem()
	}
	perm := s.orderKeys(vals)
	out := make([]K, len(keys))
	for i, j := range perm {
		out[i] = keys[j]
	}
	return out
}

// orderKeys returns the visiting order as a permutation of the indices of
// vals: canonical order, rotated and possibly reversed by two tape draws.
//
//go:norace
func (s *Sim) orderKeys(vals []reflect.Value) []int {
	for i := range vals {
		s.noteKey(vals[i], false) // pointers never stored through instrumented code: numbered now (counted)
	}
	idx := make([]int, len(vals))
	for i := range idx {
		idx[i] = i
	}
	if len(vals) <= 64 {
		for i := 1; i < len(idx); i++ {
			for j := i; j > 0 && s.keyCmp(vals[idx[j]], vals[idx[j-1]]) < 0; j-- {
				idx[j], idx[j-1] = idx[j-1], idx[j]
			}
		}
	} else {
		s.keySort(vals, idx)
	}
	n := len(vals)
	s.Counters[CtMapRanges]++
	rot := s.Sched.Draw(n)
	rev := s.Sched.Draw(2) == 1
	out := make([]int, n)
	for i := 0; i < n; i++ {
		j := (i + rot) % n
		if rev {
			j = (n - 1 - i + rot) % n
		}
		out[i] = idx[j]
	}
	return out
}

// keySort is a merge sort (no closures: see the rules in DESIGN section 9).
//
//go:norace
func (s *Sim) keySort(vals []reflect.Value, idx []int) {
	if len(idx) < 2 {
		return
	}
	mid := len(idx) / 2
	left := append([]int(nil), idx[:mid]...)
	right := append([]int(nil), idx[mid:]...)
	s.keySort(vals, left)
	s.keySort(vals, right)
	i, j, k := 0, 0, 0
	for i < len(left) && j < len(right) {
		if s.keyCmp(vals[right[j]], vals[left[i]]) < 0 {
			idx[k] = right[j]
			j++
		} else {
			idx[k] = left[i]
			i++
		}
		k++
	}
	for ; i < len(left); i, k = i+1, k+1 {
		idx[k] = left[i]
	}
	for ; j < len(right); j, k = j+1, k+1 {
		idx[k] = right[j]
	}
}

//go:norace
func cmpU(a, b uint64) int {
	switch {
	case a < b:
		return -1
	case a > b:
		return 1
	}
	return 0
}

//go:norace
func cmpF(a, b float64) int {
	switch {
	case a < b:
		return -1
	case a > b:
		return 1
	case a == b:
		return 0
	}
	return cmpU(math.Float64bits(a), math.Float64bits(b)) // NaNs: by bit pattern
}

// keyCmp is a total order on map keys that does not depend on addresses.
//
//go:norace
func (s *Sim) keyCmp(a, b reflect.Value) int {
	switch a.Kind() {
	case reflect.Bool:
		x, y := 0, 0
		if a.Bool() {
			x = 1
		}
		if b.Bool() {
			y = 1
		}
		return x - y
	case reflect.Int, reflect.Int8, reflect.Int16, reflect.Int32, reflect.Int64:
		x, y := a.Int(), b.Int()
		switch {
		case x < y:
			return -1
		case x > y:
			return 1
		}
		return 0
	case reflect.Uint, reflect.Uint8, reflect.Uint16, reflect.Uint32, reflect.Uint64, reflect.Uintptr:
		return cmpU(a.Uint(), b.Uint())
	case reflect.Float32, reflect.Float64:
		return cmpF(a.Float(), b.Float())
	case reflect.Complex64, reflect.Complex128:
		if c := cmpF(real(a.Complex()), real(b.Complex())); c != 0 {
			return c
		}
		return cmpF(imag(a.Complex()), imag(b.Complex()))
	case reflect.String:
		x, y := a.String(), b.String()
		switch {
		case x < y:
			return -1
		case x > y:
			return 1
		}
		return 0
	case reflect.Ptr, reflect.Chan, reflect.UnsafePointer:
		x, _ := s.keyNums.number(uintptr(a.UnsafePointer()), true)
		y, _ := s.keyNums.number(uintptr(b.UnsafePointer()), true)
		return x - y
	case reflect.Interface:
		switch {
		case a.IsNil() && b.IsNil():
			return 0
		case a.IsNil():
			return -1
		case b.IsNil():
			return 1
		}
		ea, eb := a.Elem(), b.Elem()
		if ea.Type() != eb.Type() {
			x, y := ea.Type().String(), eb.Type().String()
			if x < y {
				return -1
			}
			if x > y {
				return 1
			}
			return 0
		}
		return s.keyCmp(ea, eb)
	case reflect.Struct:
		for i := 0; i < a.NumField(); i++ {
			if c := s.keyCmp(a.Field(i), b.Field(i)); c != 0 {
				return c
			}
		}
		return 0
	case reflect.Array:
		for i := 0; i < a.Len(); i++ {
			if c := s.keyCmp(a.Index(i), b.Index(i)); c != 0 {
				return c
			}
		}
		return 0
	}
	return 0
}

var _ = unsafe.Pointer(nil)

// SelectStart decides which case of a rewritten select statement is tried
// first (the others follow in source order, cyclically): among several ready
// cases the Go runtime picks at random, the simulator picks from the tape.
//
//go:norace
func SelectStart(n int) int {
	s := inTask()
	if s == nil || n < 2 {
		return 0
	}
	s.Counters[CtSelectOrders]++
	return s.Sched.Draw(n)
}
