package simrt

// Tape is the complete record of every choice of one run. The two sections
// are fed by independent PRNG streams: Program holds configuration and the
// generated operation lists, Schedule holds scheduler picks, fault coins and
// stub-pool picks.
type Tape struct {
	Program  []uint64 `json:"program"`
	Schedule []uint64 `json:"schedule"`
	// ProgramSpans are [start,end) index ranges of Program that were drawn
	// as one unit (one task, one cycle, one operation, each including the
	// draw that decided whether it exists). Deleting a whole span keeps the
	// rest of the tape aligned; the minimiser tries that first.
	ProgramSpans [][2]int `json:"program_spans,omitempty"`
}

// Stream is one section of the choice tape. In record mode Draw returns PRNG
// values; in replay mode it returns the stored values (mod n), and 0 once the
// stored tape is exhausted. Either way the effective values are collected in
// Out, which is therefore always a normalised tape for exactly this run.
type Stream struct {
	rng    Xoshiro
	replay bool
	in     []uint64
	pos    int
	out    []uint64
	n      int
	spans  [][2]int
	stack  []int
}

// NewRecordStream returns a stream that draws from the PRNG.
func NewRecordStream(seed, run, stream uint64) *Stream {
	return &Stream{rng: NewXoshiro(seed, run, stream), out: make([]uint64, 256)}
}

// NewReplayStream returns a stream that replays tape.
func NewReplayStream(tape []uint64) *Stream {
	return &Stream{replay: true, in: tape, out: make([]uint64, 256)}
}

// Draw returns a value in [0,n). n<=1 returns 0 and consumes nothing.
// By convention 0 is always the simplest choice.
//
//go:norace
func (s *Stream) Draw(n int) int {
	if n <= 1 {
		return 0
	}
	var v uint64
	if s.replay {
		if s.pos < len(s.in) {
			v = s.in[s.pos] % uint64(n)
		}
		s.pos++
	} else {
		v = s.rng.Next() % uint64(n)
	}
	if s.n == len(s.out) {
		bigger := make([]uint64, 2*len(s.out))
		for i := 0; i < s.n; i++ {
			bigger[i] = s.out[i]
		}
		s.out = bigger
	}
	s.out[s.n] = v
	s.n++
	return int(v)
}

// Coin returns true with probability num/den; false when replaying zeros.
//
//go:norace
func (s *Stream) Coin(num, den int) bool {
	if num <= 0 {
		return false
	}
	return s.Draw(den) >= den-num
}

// Out returns the effective tape so far.
//
//go:norace
func (s *Stream) Out() []uint64 {
	r := make([]uint64, s.n)
	for i := 0; i < s.n; i++ {
		r[i] = s.out[i]
	}
	return r
}

// Count returns how many draws were recorded.
//
//go:norace
func (s *Stream) Count() int { return s.n }

// Begin opens a span: the draws until the matching End form one unit.
// Program stream only (drawn by the main goroutine before tasks start).
func (s *Stream) Begin() { s.stack = append(s.stack, s.n) }

// End closes the innermost span.
func (s *Stream) End() {
	if len(s.stack) == 0 {
		return
	}
	start := s.stack[len(s.stack)-1]
	s.stack = s.stack[:len(s.stack)-1]
	if s.n > start {
		s.spans = append(s.spans, [2]int{start, s.n})
	}
}

// Spans returns the closed spans.
func (s *Stream) Spans() [][2]int { return s.spans }

// More decides whether a repeated unit continues: true with probability
// 1-1/k; false when replaying zeros, so truncated tapes simply stop.
//
//go:norace
func (s *Stream) More(k int) bool { return s.Draw(k) != 0 }
