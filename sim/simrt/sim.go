package simrt

import (
	"fmt"
	"os"
	"sync"
	"sync/atomic"
	"time"
	"unsafe"
)

// Scheduling strategies.
const (
	StratSequential = iota // task 0 to completion, then 1, ... (no draws)
	StratRoundRobin        // switch at every step (no draws)
	StratSticky            // keep running the same task, switch with probability 1/StickyP
	StratRandom            // uniformly random runnable task at every step
	StratPCT               // random static priorities plus d priority-change points
	NumStrategies
)

// StrategyNames for traces and tallies.
var StrategyNames = [NumStrategies]string{"sequential", "roundrobin", "sticky", "random", "pct"}

// Pool pick policies of the stub pool.
const (
	PolicyLIFO = iota
	PolicyFIFO
	PolicyRandom
	NumPolicies
)

// PolicyNames for traces and tallies.
var PolicyNames = [NumPolicies]string{"lifo", "fifo", "random"}

// Counters of environment events that actually happened in a run.
const (
	CtPoolGet = iota
	CtPoolGetHit
	CtPoolGetNew
	CtPoolPut
	CtFaultPutDrop // fault: Put discarded the object
	CtFaultMiss    // fault: Get ignored available objects
	CtFaultGC      // fault: gc event (primary -> victim -> dropped)
	CtGCDropped    // objects dropped by gc events
	CtSteps
	CtSwitches // steps at which the running task changed
	CtInnerYields
	CtFaultStall // fault: a task pre-empted at an inner point was held back for several steps
	CtBlockedYields
	CtSpinBreaks
	CtFaultClockJump
	CtTimersFired
	CtSpawned
	CtFinalizersRun
	CtRandDraws        // "random" numbers the library asked for (drawn from the schedule tape)
	CtMapRanges        // range statements over maps in the library whose order came from the tape
	CtMapKeysUnordered // pointers in map keys first seen at a range statement (their relative order is the runtime's)
	CtSelectOrders     // select statements in the library whose order of preference came from the tape
	CtLibPanics        // runs cut short because a goroutine started by the library panicked
	CtSimMicros        // simulated time covered by the run's clock, in microseconds
	NumCounters
)

// CounterNames for evidence.
var CounterNames = [NumCounters]string{"pool_get", "pool_get_hit", "pool_get_new", "pool_put",
	"fault_putdrop", "fault_miss", "fault_gc", "gc_dropped_objects", "steps", "task_switches", "inner_yields", "fault_stall", "blocked_yields", "spin_breaks", "fault_clock_jump", "timers_fired", "library_goroutines_as_tasks", "finalizers_run", "library_random_draws", "library_map_ranges_ordered", "map_key_pointers_numbered_late", "library_selects_ordered", "runs_cut_short_library_goroutine_panicked", "simulated_microseconds"}

// FaultDen is the denominator of all fault rates.
const FaultDen = 256

// MaxSites bounds the site numbers a harness may use.
const MaxSites = 64

// spinLimit: statements a task may execute in one step before it is treated
// as spin-waiting.
const spinLimit = 2000000

const (
	siteStart = MaxSites - 2
	siteDone  = MaxSites - 1
)

type yieldMsg struct {
	task int
	site int
}

// Task is one simulated caller thread.
type Task struct {
	ID         int
	Name       string
	Step       int // global step number of the step this task is executing
	PanicVal   any
	sim        *Sim
	resume     chan int
	fn         func(*Task)
	parked     int // site the task is parked at
	prio       int
	finished   bool
	g          uintptr // goroutine identity of the task (see getg)
	lockDepth  int     // library locks currently held by the task: no inner yields while > 0
	inner      bool    // parked at an inner point (inside a library call)
	stallUntil int     // not runnable before this step (stall fault), unless everybody is stalled
	at         int     // id of the library statement the task is parked before (inner points)
	blocked    bool    // last yield was Blocked(): waiting for a lock, channel, timer or flag
	root       bool    // registered by the harness (joined at the end); false = started by the library
	started    bool    // goroutine already created (tasks the library started)
}

// Sim is one simulated run: choice source, scheduler, stub-pool environment.
type Sim struct {
	Sched *Stream

	// stub pool environment
	Policy      int
	PutDropNum  int // out of FaultDen per Put
	MissNum     int // out of FaultDen per Get with objects available
	GCNum       int // out of FaultDen per scheduler step (and per sequential op where the harness asks)
	Passthrough bool
	pools       []*poolState
	objKeys     []uintptr
	objKeep     []unsafe.Pointer
	Procs       int // what runtime.GOMAXPROCS(0) and runtime.NumCPU() report to the library in this run
	objUsed     int
	waiters     []*chanWaiter // receivers parked on unbuffered channels (coop.go)
	conds       []*condShadow // condition variables of the library with simulated waiters (coop.go)
	keyNums     addrTable     // pointers used as map keys by the library (see maporder.go)
	objVals     []int32
	objCount    int
	realGCs     int

	// scheduler
	Strategy      int
	StickyP       int
	MaxSteps      int
	tasks         []*Task
	yieldCh       chan yieldMsg
	running       *Task
	step          int
	wg            sync.WaitGroup
	pctChange     []int
	GCSteps       []int // scheduler step after which each gc event fired
	Overrun       bool  // MaxSteps exceeded: remaining tasks were run sequentially
	InnerG        int   // inner yield points: after each resume the gap to the next inner yield is Draw(InnerG), 0 = none
	InnerBudget   int   // inner yields left in this run
	innerGap      int
	InnerSyncOnly bool   // inner pre-emption only right after atomic operations and sync.Map operations (the points with id 0), as in schedulers that pre-empt at synchronisation operations only
	InnerSites    uint64 // bit per site: steps starting at these sites may be pre-empted at inner points (0 = all)
	StallMax      int    // stall fault: a task pre-empted at an inner point is held back for Draw(StallMax) steps
	spawned       []*Task
	pointsInStep  int
	coopProgress  int // successful cooperative operations (lock taken, value sent/received)
	mail          []*mailItem
	fin           finState
	handoff       []handoffItem
	wgs           []*wgShadow
	finishedRun   bool
	Deadlocked    string // non-empty: the run was abandoned because every live task was blocked
	RaceAborted   bool   // the run was cut short because the race detector had already reported a race in it
	LibPanicked   bool   // the run was cut short because a goroutine started by the library panicked
	raceBase      int
	step0         int // step count when the current Run began
	inRun         bool
	clock

	// measurements
	Counters    [NumCounters]int64
	Sig         uint64
	SwitchPairs [MaxSites][MaxSites]bool
	Tracing     bool
	trace       []traceRec
	SiteNames   []string
	PointNames  []string // id -> "file:line statement" of the library statements (from the rewriter)
	Preempted   []bool   // by point id: an inner pre-emption happened right before that statement
	Executed    []bool   // by point id: the statement was reached by a simulated task
	progress    atomic.Int64
}

var cur *Sim

// Heartbeat counts scheduler steps of all runs of this process; the worker's
// own watchdog uses it to notice a process that hangs outside any run.
var Heartbeat atomic.Int64

// FatalHook, if set, is called before the process exits with status 2
// because a run cannot be completed (deadlock, no termination). The worker
// uses it to report a run in which the race detector had already spoken.
var FatalHook func(msg string)

func fatal(msg string) {
	if FatalHook != nil {
		FatalHook(msg)
	}
	fmt.Fprintln(os.Stderr, msg)
	os.Exit(2)
}

// EarlierOrphans counts goroutines the library started in earlier runs of
// this process and that are still alive (parked for ever). If a later run
// deadlocks while such goroutines exist, the runs are not independent
// (package-level state): the worker asks to be re-run in isolation (exit 77).
var EarlierOrphans int

// NewSim returns a run environment drawing schedule choices from sched.
func NewSim(sched *Stream) *Sim {
	return &Sim{Sched: sched, Sig: 14695981039346656037, StickyP: 4, MaxSteps: 50000,
		yieldCh: make(chan yieldMsg)}
}

// Begin makes s the current environment of the stub pool.
//
//go:norace
func Begin(s *Sim) { cur = s }

// End clears the current environment.
//
//go:norace
func End() { cur = nil }

//go:norace
func (s *Sim) mix(v uint64) {
	for i := 0; i < 8; i++ {
		s.Sig ^= v & 0xff
		s.Sig *= 1099511628211
		v >>= 8
	}
}

// Mix folds a harness-level event into the run signature.
//
//go:norace
func (s *Sim) Mix(v uint64) { s.mix(v) }

type traceRec struct {
	format string
	args   []any
}

// Tracef records a trace line when tracing. Nothing is formatted here: fmt
// keeps shared state behind a sync.Pool, and calling it from inside a task
// would either add happens-before edges between tasks or, with those edges
// hidden, show up as races inside fmt. Arguments must be plain values. The
// lines are rendered by RenderTrace after the run. It never draws and never
// synchronises.
//
//go:norace
func (s *Sim) Tracef(format string, args ...any) {
	if !s.Tracing {
		return
	}
	n := len(s.trace)
	if n == cap(s.trace) {
		bigger := make([]traceRec, n, 2*n+64)
		for i := 0; i < n; i++ {
			bigger[i] = s.trace[i]
		}
		s.trace = bigger
	}
	s.trace = s.trace[:n+1]
	s.trace[n] = traceRec{format, args}
}

// RenderTrace formats the recorded trace; call it after Run has returned.
func (s *Sim) RenderTrace() []string {
	out := make([]string, len(s.trace))
	for i, r := range s.trace {
		out[i] = fmt.Sprintf(r.format, r.args...)
	}
	return out
}

// NoSync runs f with race-detector synchronisation events of this goroutine
// ignored (memory accesses are still checked). Harness code that must call
// into fmt, maps with locks etc. from inside a task uses it so that it adds
// no happens-before edges between tasks.
func NoSync(f func()) {
	raceDisable()
	defer raceEnable()
	f()
}

// ObjID numbers objects in first-seen order; pointers never enter traces.
// (An open-addressing table written by hand: maps are off limits here, see
// the package comment, and marathons see hundreds of thousands of objects.)
//
//go:norace
func (s *Sim) ObjID(p unsafe.Pointer) int {
	if len(s.objKeys) == 0 {
		s.objKeys = make([]uintptr, 256)
		s.objVals = make([]int32, 256)
	}
	key := uintptr(p)
	mask := uintptr(len(s.objKeys) - 1)
	i := ((key >> 3) * 0x9e3779b97f4a7c15 >> 17) & mask
	for s.objKeys[i] != 0 {
		if s.objKeys[i] == key {
			return int(s.objVals[i])
		}
		i = (i + 1) & mask
	}
	id := s.objCount
	s.objCount++
	s.objKeys[i] = key
	s.objVals[i] = int32(id)
	s.objUsed++
	// keep the object alive, so that its address is never reused for another
	// object while it has a number (ForgetObj lets go of it)
	if id >= len(s.objKeep) {
		bigger := make([]unsafe.Pointer, 2*id+64)
		for k := 0; k < len(s.objKeep); k++ {
			bigger[k] = s.objKeep[k]
		}
		s.objKeep = bigger
	}
	s.objKeep[id] = p
	if 2*s.objUsed > len(s.objKeys) {
		oldK, oldV := s.objKeys, s.objVals
		s.objKeys = make([]uintptr, 2*len(oldK))
		s.objVals = make([]int32, 2*len(oldK))
		s.objUsed = 0
		mask = uintptr(len(s.objKeys) - 1)
		for k := 0; k < len(oldK); k++ {
			if oldK[k] == 0 || oldK[k] == objTombstone {
				continue
			}
			j := ((oldK[k] >> 3) * 0x9e3779b97f4a7c15 >> 17) & mask
			for s.objKeys[j] != 0 {
				j = (j + 1) & mask
			}
			s.objKeys[j] = oldK[k]
			s.objVals[j] = oldV[k]
			s.objUsed++
		}
	}
	return id
}

const objTombstone = ^uintptr(0)

// ForgetObj drops the number of an object and the reference that kept it
// alive: the harness calls it when the simulated caller lets go of a buffer
// header for good, so that the header can become garbage as it would in a
// real program (a later object at the same address gets a new number).
//
//go:norace
func (s *Sim) ForgetObj(p unsafe.Pointer) {
	if len(s.objKeys) == 0 {
		return
	}
	key := uintptr(p)
	mask := uintptr(len(s.objKeys) - 1)
	i := ((key >> 3) * 0x9e3779b97f4a7c15 >> 17) & mask
	for s.objKeys[i] != 0 {
		if s.objKeys[i] == key {
			if id := int(s.objVals[i]); id < len(s.objKeep) {
				s.objKeep[id] = nil
			}
			s.objKeys[i] = objTombstone
			return
		}
		i = (i + 1) & mask
	}
}

// Go registers a task. Tasks start parked; Run releases them one at a time.
func (s *Sim) Go(name string, fn func(*Task)) *Task {
	t := &Task{ID: len(s.tasks), Name: name, sim: s, resume: make(chan int), fn: fn, parked: siteStart, root: true}
	s.tasks = append(s.tasks, t)
	return t
}

// notePanic: a goroutine the library started has panicked. In a real program
// that ends the process; here the run is cut short without a verdict (the
// harness also applies operations the library rejects by panicking, and a
// variant that moves work into goroutines of its own panics there instead).
//
//go:norace
func (t *Task) notePanic() {
	if !t.root {
		t.sim.LibPanicked = true
	}
}

func (t *Task) main() {
	t.g = getg()
	raceDisable()
	t.Step = <-t.resume
	raceEnable()
	func() {
		defer func() {
			if r := recover(); r != nil {
				t.PanicVal = r
				t.notePanic()
			}
		}()
		t.fn(t)
	}()
	t.finish()
}

// finish reports the end of the task to the scheduler. (Not instrumented: a
// goroutine the library started may end under another Sim than the one it was
// started under - Adopt - and the scheduler's hand-offs are hidden from the
// race detector.)
//
//go:norace
func (t *Task) finish() {
	raceDisable()
	t.sim.yieldCh <- yieldMsg{t.ID, siteDone}
	raceEnable()
	// The WaitGroup is the one synchronisation the race detector is allowed
	// to see: every harness task happens-before the post-run inspection.
	if t.root {
		t.sim.wg.Done()
	}
}

// Yield parks the task until the scheduler releases it again. site names
// what the task is about to do.
//
//go:norace
func (t *Task) Yield(site int) {
	t.inner = false
	t.blocked = false
	t.yield(site)
}

//go:norace
func (t *Task) yield(site int) {
	raceDisable()
	t.sim.yieldCh <- yieldMsg{t.ID, site}
	t.Step = <-t.resume
	raceEnable()
}

// Sim returns the task's simulation.
func (t *Task) Sim() *Sim { return t.sim }

// Point is an inner yield point: the rewriter inserts a call before every
// statement of the scratch copy of the library, and harness loops call it
// between samples. After each resume the scheduler draws the gap to the next
// inner yield (0 = none in this step), so inner pre-emption costs one tape
// entry per step. It does nothing when called outside the task the scheduler
// released (set-up code, foreign goroutines) or while the task holds a
// library lock (yielding there could park the lock's owner for ever).
//
//go:norace
func Point() { PointAt(0) }

// PointAt is Point with the identity of the statement it stands before (ids
// are assigned by the rewriter, 1-based; 0 = a harness loop). The identity is
// used for traces and for the reach measure "which library statements were
// pre-empted at least once".
//
//go:norace
func PointAt(id int) {
	s := cur
	if s == nil {
		return
	}
	t := s.running
	if t == nil || getg() != t.g {
		return
	}
	s.pointsInStep++
	if id > 0 {
		if id >= len(s.Executed) {
			s.growExecuted(id)
		}
		s.Executed[id] = true
	}
	if RaceEnabled && s.pointsInStep&1023 == 0 && t.lockDepth == 0 && RaceErrors() > s.raceBase {
		// give the scheduler the chance to cut the run short (see Run)
		t.inner = true
		t.at = id
		t.yield(t.parked)
		return
	}
	if s.pointsInStep > spinLimit && t.lockDepth == 0 {
		// The task has executed a very large number of statements without
		// yielding: a spin-wait on something a parked task must change.
		// Treat it as blocked (deterministic: it is a count, not a timeout).
		s.Counters[CtSpinBreaks]++
		t.blocked = true
		t.inner = true
		t.at = id
		t.yield(t.parked)
		return
	}
	if s.innerGap == 0 || t.lockDepth > 0 || (s.InnerSyncOnly && id != 0) {
		return
	}
	s.innerGap--
	if s.innerGap > 0 {
		return
	}
	s.InnerBudget--
	s.Counters[CtInnerYields]++
	t.inner = true
	t.blocked = false
	t.at = id
	s.markPreempted(id)
	t.yield(t.parked)
}

//go:norace
func (s *Sim) growExecuted(id int) {
	bigger := make([]bool, 2*id+64)
	for i := 0; i < len(s.Executed); i++ {
		bigger[i] = s.Executed[i]
	}
	s.Executed = bigger
}

//go:norace
func (s *Sim) markPreempted(id int) {
	if id <= 0 {
		return
	}
	if id >= len(s.Preempted) {
		bigger := make([]bool, 2*id+64)
		for i := 0; i < len(s.Preempted); i++ {
			bigger[i] = s.Preempted[i]
		}
		s.Preempted = bigger
	}
	s.Preempted[id] = true
}

// Blocked is called inside the cooperative wait loops that the rewriter
// substitutes for blocking operations of the library (mutex Lock, channel
// send/receive, Cond.Wait, Sleep): the task could not proceed and hands
// control back. It reports false when the caller is not the task the
// scheduler released (set-up code, foreign goroutines): the caller then
// falls back to the real blocking operation.
//
//go:norace
func Blocked() bool {
	s := cur
	if s == nil {
		return false
	}
	t := s.running
	if t == nil || getg() != t.g {
		return false
	}
	s.Counters[CtBlockedYields]++
	t.blocked = true
	t.inner = true
	t.yield(t.parked)
	return true
}

// Locked / Unlocking bracket the library's own critical sections (inserted by
// the rewriter after x.Lock()/x.RLock() and before x.Unlock()/x.RUnlock(),
// and around once.Do).
//
//go:norace
func Locked() {
	if s := cur; s != nil {
		if t := s.running; t != nil && getg() == t.g {
			t.lockDepth++
		}
	}
}

//go:norace
func Unlocking() {
	if s := cur; s != nil {
		if t := s.running; t != nil && getg() == t.g && t.lockDepth > 0 {
			t.lockDepth--
		}
	}
}

// Spawn replaces "go f()" in the scratch copy of the library: a goroutine
// started by library code on behalf of a task becomes a simulated task of its
// own, so the scheduler still decides who runs. Goroutine creation stays a
// real "go" statement executed by the parent, so the parent->child
// happens-before edge is the real one.
//
//go:norace
func Spawn(fn func()) {
	s := cur
	var running *Task
	if s != nil {
		running = s.running
	}
	if s == nil || s.finishedRun || (running != nil && getg() != running.g) {
		go fn()
		return
	}
	// Called by the released task, or by the harness's set-up code before Run
	// (e.g. a constructor that starts a background goroutine).
	s.startTask("started-by-library", fn)
}

// startTask creates a non-root simulated task (a goroutine the library
// started, or the finalizer run of a gc event). Callers: the released task,
// set-up code before Run, or the scheduler itself.
//
//go:norace
func (s *Sim) startTask(name string, fn func()) {
	t := &Task{ID: len(s.tasks), Name: name, sim: s, resume: make(chan int), parked: siteStart,
		fn: func(*Task) { fn() }, started: true}
	n := len(s.tasks)
	if n == cap(s.tasks) {
		bigger := make([]*Task, n, 2*n+8)
		for i := 0; i < n; i++ {
			bigger[i] = s.tasks[i]
		}
		s.tasks = bigger
	}
	s.tasks = s.tasks[:n+1]
	s.tasks[n] = t
	if s.inRun {
		m := len(s.spawned)
		if m == cap(s.spawned) {
			sp := make([]*Task, m, 2*m+8)
			for i := 0; i < m; i++ {
				sp[i] = s.spawned[i]
			}
			s.spawned = sp
		}
		s.spawned = s.spawned[:m+1]
		s.spawned[m] = t
	}
	if s.Strategy == StratPCT {
		t.prio = 1 + s.Sched.Draw(n+1)
	}
	s.Counters[CtSpawned]++
	if s.inRun && s.running == nil {
		// Created by the scheduler itself (timer function, finalizer run): the
		// race detector drops the parent->child edge of goroutines created
		// while synchronisation is ignored, so switch that off for the one
		// statement. The child then inherits exactly what the scheduler has
		// seen: the harness's set-up.
		raceEnable()
		go t.main()
		raceDisable()
		return
	}
	go t.main()
}

//go:norace
func (s *Sim) pointName(id int) string {
	if id > 0 && id < len(s.PointNames) {
		return s.PointNames[id]
	}
	if id == 0 {
		return "the next sample (harness loop)"
	}
	return "a library statement"
}

//go:norace
func (s *Sim) siteName(i int) string {
	switch {
	case i == siteStart:
		return "start"
	case i == siteDone:
		return "done"
	case i < len(s.SiteNames):
		return s.SiteNames[i]
	}
	return "site?"
}

// Run executes all registered tasks under the chosen strategy and returns
// when every task has finished. estSteps is the harness's estimate of the
// number of steps, used to place PCT change points.
//
//go:norace
func (s *Sim) Run(estSteps int) {
	n := len(s.tasks)
	if n == 0 {
		return
	}
	s.finishedRun = false // Run may be called again (Setup, then the run proper)
	s.Deadlocked = ""
	s.step0 = s.step
	// PCT set-up draws (before any task runs).
	if s.Strategy == StratPCT {
		for i := 0; i < n; i++ {
			s.tasks[i].prio = i + 1
		}
		for i := n - 1; i > 0; i-- { // seeded permutation of priorities
			j := s.Sched.Draw(i + 1)
			s.tasks[i].prio, s.tasks[j].prio = s.tasks[j].prio, s.tasks[i].prio
		}
		d := s.Sched.Draw(4)
		if estSteps < 1 {
			estSteps = 1
		}
		s.pctChange = make([]int, d)
		for i := 0; i < d; i++ {
			s.pctChange[i] = 1 + s.Sched.Draw(estSteps)
		}
	}
	stop := make(chan struct{})
	go s.watchdog(stop)
	for _, t := range s.tasks {
		if t.started {
			continue
		}
		t.started = true
		s.wg.Add(1)
		go t.main() // goroutine creation: set-up happens-before every task
	}
	s.inRun = true
	s.raceBase = RaceErrors()
	raceDisable()
	runnable := make([]*Task, n)
	for i := 0; i < n; i++ {
		runnable[i] = s.tasks[i]
	}
	var last *Task
	var elig []*Task
	lastSite := siteStart
	lowPrio := 0
	blockedOnly := 0  // consecutive steps in which only blocked tasks could be run
	graceLeft := 2000 // milliseconds of real time granted to goroutines outside the simulation
	rr := 0
	for {
		// Who is still alive?
		k := 0
		roots, awake := 0, 0
		for i := 0; i < len(runnable); i++ {
			if !runnable[i].finished {
				runnable[k] = runnable[i]
				k++
				if runnable[i].root {
					roots++
				}
				if !runnable[i].blocked {
					awake++
				}
			}
		}
		runnable = runnable[:k]
		if k == 0 || (roots == 0 && awake == 0) {
			break // every harness task is done; goroutines the library started are idle
		}
		if RaceEnabled && RaceErrors() > s.raceBase {
			// The verdict on this run is in. Code that races heavily is also
			// extremely slow under the detector (every conflicting access walks
			// the report path), so the rest of the run is not executed.
			s.RaceAborted = true
			s.Deadlocked = "run cut short after a data race report"
			break
		}
		if s.LibPanicked {
			s.Counters[CtLibPanics]++
			s.Deadlocked = "run cut short: a goroutine started by the library panicked"
			break
		}
		if s.step-s.step0 > 64*s.MaxSteps+200000 {
			// (generous: with goroutines of its own a library spends many steps
			// on tasks that only retry a wait; a run that really does not end is
			// also caught by the deadlock detector and the watchdog)
			raceEnable()
			fatal("INFRA: simulated run does not terminate (step cap exceeded 64x)")
		}
		if s.GCNum > 0 && s.Sched.Coin(s.GCNum, FaultDen) {
			s.GC()
		}
		s.advance(s.now + s.ClockTick)
		strategy := s.Strategy
		if s.step-s.step0 >= s.MaxSteps {
			strategy = StratSequential
			s.Overrun = true
		}
		// Eligibility: awake and not stalled; else awake; else everybody is
		// blocked: jump the clock to the next timer, then let the blocked
		// tasks retry in turn.
		elig = elig[:0]
		for i := 0; i < k; i++ {
			if t := runnable[i]; !t.blocked && t.stallUntil <= s.step {
				elig = append(elig, t)
			}
		}
		if len(elig) == 0 {
			for i := 0; i < k; i++ {
				if t := runnable[i]; !t.blocked {
					elig = append(elig, t)
				}
			}
		}
		parked := 0
		for i := 0; i < k; i++ {
			if runnable[i].blocked {
				parked++
			}
		}
		if len(elig) > 0 && parked > 0 && s.Sched.Draw(4) == 3 {
			// Some tasks are parked in a cooperative wait. Whether what they
			// wait for has happened is not tracked per task, so now and then
			// (one step in four, drawn) they compete with the awake tasks and
			// retry; otherwise they would only ever run when nobody else can,
			// and a woken waiter would always be the last to proceed.
			for i := 0; i < k; i++ {
				if t := runnable[i]; t.blocked {
					elig = append(elig, t)
				}
			}
		}
		allBlocked := len(elig) == 0
		if allBlocked {
			if next, ok := s.nextTimer(); ok {
				s.advance(next)
				blockedOnly = 0
			}
			if blockedOnly > 3*k+16 && graceLeft > 0 {
				// Before calling it a deadlock, give goroutines outside the
				// simulation (a finalizer the runtime is running, set-up code)
				// real time to let go of whatever the tasks are waiting for.
				graceLeft--
				time.Sleep(time.Millisecond)
				blockedOnly = 3 * k
			}
			if blockedOnly > 3*k+16 {
				raceEnable()
				if EarlierOrphans > 0 {
					fmt.Fprintf(os.Stderr, "ISOLATE: all %d live tasks are blocked while %d goroutines started by the library in earlier runs of this process are parked: runs depend on each other\n", k, EarlierOrphans)
					os.Exit(77)
				}
				msg := fmt.Sprintf("INFRA: deadlock among simulated tasks: all %d live tasks are blocked and no timer is pending (step %d)", k, s.step)
				for i := 0; i < k; i++ {
					msg += fmt.Sprintf("\n  task %d (%s, root=%v) blocked inside %s, last inner point before %s", runnable[i].ID, runnable[i].Name, runnable[i].root, s.siteName(runnable[i].parked), s.pointName(runnable[i].at))
				}
				if RaceEnabled {
					fatal(msg)
				}
				// Without the race detector nothing is lost by abandoning the
				// blocked tasks: the harness can still report what the tasks
				// recorded before (e.g. a panic that left a lock held); if
				// they recorded nothing the worker turns this into exit 2.
				s.Deadlocked = msg
				raceDisable()
				break
			}
			elig = append(elig, runnable[rr%k])
			rr++
			strategy = StratSequential
		}
		idx := 0
		switch strategy {
		case StratSequential:
			idx = 0
		case StratRoundRobin:
			if last != nil {
				for i := 0; i < len(elig); i++ {
					if elig[i].ID > last.ID {
						idx = i
						break
					}
				}
			}
		case StratSticky:
			at := -1
			for i := 0; i < len(elig); i++ {
				if elig[i] == last {
					at = i
				}
			}
			if at >= 0 && !s.Sched.Coin(1, s.StickyP) {
				idx = at
			} else {
				idx = s.Sched.Draw(len(elig))
			}
		case StratRandom:
			idx = s.Sched.Draw(len(elig))
		case StratPCT:
			for i := 1; i < len(elig); i++ {
				if elig[i].prio > elig[idx].prio {
					idx = i
				}
			}
			for i := 0; i < len(s.pctChange); i++ {
				if s.pctChange[i] == s.step+1 {
					lowPrio--
					elig[idx].prio = lowPrio
					idx = 0
					for j := 1; j < len(elig); j++ {
						if elig[j].prio > elig[idx].prio {
							idx = j
						}
					}
				}
			}
		}
		t := elig[idx]
		s.innerGap = 0
		// (also for a task resumed from a cooperative wait: when the wait is
		// over it goes on into code that wants pre-empting like any other; and
		// always for goroutines the library started - a harness restricts inner
		// pre-emption to the steps of its own tasks that enter the library)
		if s.InnerG > 0 && s.InnerBudget > 0 && (!t.root || s.InnerSites == 0 || s.InnerSites&(1<<uint(t.parked)) != 0) {
			s.innerGap = s.Sched.Draw(s.InnerG)
		}
		s.pointsInStep = 0
		s.step++
		s.Counters[CtSteps]++
		s.progress.Add(1)
		Heartbeat.Add(1)
		if last != nil && last != t {
			s.Counters[CtSwitches]++
			s.SwitchPairs[lastSite][t.parked] = true
		}
		s.mix(uint64(t.ID)<<8 | uint64(t.parked))
		if t.inner {
			s.mix(0xf000 | uint64(s.innerGap))
		}
		if s.Tracing {
			switch {
			case t.blocked:
				s.Tracef("step %d: task %d (%s) retries the operation it is blocked in (inside %s)", s.step, t.ID, t.Name, s.siteName(t.parked))
			case t.inner:
				s.Tracef("step %d: task %d (%s) continues inside %s, where it was pre-empted before %s", s.step, t.ID, t.Name, s.siteName(t.parked), s.pointName(t.at))
			default:
				s.Tracef("step %d: task %d (%s) runs %s", s.step, t.ID, t.Name, s.siteName(t.parked))
			}
		}
		lastSite = t.parked
		wasBlocked := t.blocked
		progressBefore := s.coopProgress
		s.running = t
		t.resume <- s.step
		m := <-s.yieldCh
		s.running = nil
		last = t
		t.parked = m.site
		for i := 0; i < len(s.spawned); i++ {
			runnable = append(runnable, s.spawned[i])
		}
		s.spawned = nil
		// Deadlock detection counts consecutive steps in which a blocked task
		// retried and achieved nothing at all.
		if t.blocked && wasBlocked && s.pointsInStep == 0 && s.coopProgress == progressBefore {
			blockedOnly++
		} else {
			blockedOnly = 0
		}
		if m.site == siteDone {
			t.finished = true
			continue
		}
		if t.inner && !t.blocked && !wasBlocked && s.StallMax > 0 {
			if d := s.Sched.Draw(s.StallMax); d > 0 {
				t.stallUntil = s.step + d
				s.Counters[CtFaultStall]++
				s.mix(0xe000 | uint64(d))
				if s.Tracing {
					s.Tracef("  FAULT stall: task %d held back for %d steps at its inner point", t.ID, d)
				}
			}
		}
	}
	s.finishedRun = true
	s.inRun = false
	s.Counters[CtSimMicros] += int64(s.now / 1000)
	raceEnable()
	close(stop)
	if s.Deadlocked == "" {
		s.wg.Wait()
	}
}

// Orphans returns how many goroutines started by the library were still alive
// (parked for ever) when the run ended. Package-level state of that kind
// outlives a run, so the worker isolates the following runs in processes of
// their own.
//
//go:norace
func (s *Sim) Orphans() int {
	n := 0
	for i := 0; i < len(s.tasks); i++ {
		if !s.tasks[i].root && !s.tasks[i].finished {
			n++
		}
	}
	return n
}

// Handoff is a mailbox through which harness tasks pass objects to each other
// (a producer gets a buffer, a consumer puts it back). Giving synchronises
// before taking, as a channel would.
type handoffItem struct {
	p    unsafe.Pointer
	a, b int
}

// HandoffGive places p (with two integers of context) into the mailbox.
//
//go:norace
func (s *Sim) HandoffGive(p unsafe.Pointer, a, b int) {
	raceReleaseMerge(p)
	n := len(s.handoff)
	bigger := make([]handoffItem, n+1)
	for i := 0; i < n; i++ {
		bigger[i] = s.handoff[i]
	}
	bigger[n] = handoffItem{p, a, b}
	s.handoff = bigger
}

// HandoffTake removes the oldest object from the mailbox (nil if empty).
//
//go:norace
func (s *Sim) HandoffTake() (unsafe.Pointer, int, int) {
	if len(s.handoff) == 0 {
		return nil, 0, 0
	}
	it := s.handoff[0]
	for i := 0; i+1 < len(s.handoff); i++ {
		s.handoff[i] = s.handoff[i+1]
	}
	s.handoff = s.handoff[:len(s.handoff)-1]
	raceAcquire(it.p)
	return it.p, it.a, it.b
}

// Adopt takes over the goroutines the library started under another Sim of
// the same run (C19 executes its program twice): they are parked, and from
// now on this Sim's scheduler resumes them. Pending timers move as well.
//
//go:norace
func (s *Sim) Adopt(from *Sim) {
	for i := 0; i < len(from.tasks); i++ {
		t := from.tasks[i]
		if t.root || t.finished {
			continue
		}
		t.sim = s
		t.ID = len(s.tasks)
		n := len(s.tasks)
		bigger := make([]*Task, n+1)
		for k := 0; k < n; k++ {
			bigger[k] = s.tasks[k]
		}
		bigger[n] = t
		s.tasks = bigger
	}
	for i := 0; i < len(from.timers); i++ {
		tm := from.timers[i]
		if !tm.dead {
			tm.at = tm.at - from.now + s.now
			n := len(s.timers)
			bigger := make([]*simTimer, n+1)
			for k := 0; k < n; k++ {
				bigger[k] = s.timers[k]
			}
			bigger[n] = tm
			s.timers = bigger
		}
	}
	from.tasks = nil
}

// Setup runs fn as a task of its own to completion before the tasks of the
// run proper are registered. The harnesses create pools and shared buffers
// this way, so that every library call is made by a simulated task: a
// constructor that starts a goroutine and waits for it would otherwise park
// the harness's main goroutine for ever.
func (s *Sim) Setup(fn func()) {
	strategy, innerG, stall := s.Strategy, s.InnerG, s.StallMax
	s.Strategy, s.InnerG, s.StallMax = StratSequential, 0, 0
	t := s.Go("setup", func(*Task) { fn() })
	s.Run(1)
	s.Strategy, s.InnerG, s.StallMax = strategy, innerG, stall
	if t.PanicVal != nil {
		panic(t.PanicVal)
	}
}

// Steps returns the number of scheduler steps executed.
//
//go:norace
func (s *Sim) Steps() int { return s.step }

// Tasks returns the registered tasks.
func (s *Sim) Tasks() []*Task { return s.tasks }

// watchdog: a task that neither yields nor finishes within 20 s of wall time
// is an infrastructure failure (exit 2), never a violation.
func (s *Sim) watchdog(stop chan struct{}) {
	lastSeen := int64(-1)
	stuck := 0
	for {
		select {
		case <-stop:
			return
		case <-time.After(5 * time.Second):
		}
		p := s.progress.Load()
		if p == lastSeen {
			stuck++
			if stuck >= 24 {
				fmt.Fprintln(os.Stderr, "INFRA: task stuck (no scheduler progress for 120 s)")
				os.Exit(2)
			}
		} else {
			stuck = 0
			lastSeen = p
		}
	}
}
