// Package simrt is the deterministic-simulation runtime used by the /verif
// checks: a seeded choice tape, a cooperative task scheduler that hides its
// own hand-offs from the race detector, and a stub for sync.Pool whose every
// decision is drawn from the tape.
//
// Everything in this package that touches state shared between simulated
// tasks is //go:norace and map-free, so the simulator cannot race with
// itself and adds no happens-before edges of its own.
package simrt

// SplitMix64 is the seeding PRNG (one step).
//
//go:norace
func SplitMix64(x *uint64) uint64 {
	*x += 0x9e3779b97f4a7c15
	z := *x
	z = (z ^ (z >> 30)) * 0xbf58476d1ce4e5b9
	z = (z ^ (z >> 27)) * 0x94d049bb133111eb
	return z ^ (z >> 31)
}

// Xoshiro is xoshiro256**; our own implementation so that results do not
// depend on the Go release.
type Xoshiro struct{ s [4]uint64 }

// NewXoshiro seeds a generator from (seed, run, stream).
//
//go:norace
func NewXoshiro(seed, run, stream uint64) Xoshiro {
	x := seed*0x9e3779b97f4a7c15 ^ (run+1)*0xd1342543de82ef95 ^ (stream+1)*0xa0761d6478bd642f
	var g Xoshiro
	for i := 0; i < 4; i++ {
		g.s[i] = SplitMix64(&x)
	}
	return g
}

//go:norace
func rotl(x uint64, k uint) uint64 { return (x << k) | (x >> (64 - k)) }

// Next returns the next 64 random bits.
//
//go:norace
func (g *Xoshiro) Next() uint64 {
	r := rotl(g.s[1]*5, 7) * 9
	t := g.s[1] << 17
	g.s[2] ^= g.s[0]
	g.s[3] ^= g.s[1]
	g.s[1] ^= g.s[2]
	g.s[0] ^= g.s[3]
	g.s[2] ^= t
	g.s[3] = rotl(g.s[3], 45)
	return r
}
