//go:build !race

package simrt

import "unsafe"

// RaceEnabled reports whether this binary was built with -race.
const RaceEnabled = false

func raceDisable()                      {}
func raceEnable()                       {}
func raceAcquire(p unsafe.Pointer)      {}
func raceReleaseMerge(p unsafe.Pointer) {}

// RaceErrors returns the number of race reports so far in this process.
func RaceErrors() int { return 0 }
