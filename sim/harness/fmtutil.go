package main

import (
	"fmt"

	"verif.local/simrt"
)

// tracingOn is set per run; descriptions are only formatted when tracing.
var tracingOn bool

// spA formats always. fmt uses a sync.Pool internally; inside a task that
// would add happens-before edges between tasks which the program under test
// did not create, so formatting runs with synchronisation events ignored.
func spA(format string, args ...any) (s string) {
	simrt.NoSync(func() { s = fmt.Sprintf(format, args...) })
	return s
}

// sp formats only when tracing.
func sp(format string, args ...any) string {
	if !tracingOn {
		return ""
	}
	return spA(format, args...)
}
