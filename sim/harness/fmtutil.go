package main

import "fmt"

// Violation is what an oracle reports. Inside a task nothing may be formatted
// (fmt keeps shared state behind a sync.Pool: calling it from tasks would
// either add happens-before edges between them or show up as races inside
// fmt), so the detail is kept as format+args and rendered after the run.
type Violation struct {
	Class  string `json:"class"`
	Detail string `json:"detail"`
	format string
	args   []any
	pre    *Violation
}

// violf builds a violation without formatting anything. Arguments must be
// plain values (no pointers into state that keeps changing).
func violf(class, format string, args ...any) *Violation {
	return &Violation{Class: class, format: format, args: args}
}

// prefixed returns v with a lazily formatted prefix in front of its detail.
func (v *Violation) prefixed(format string, args ...any) *Violation {
	return &Violation{Class: v.Class, format: format, args: args, pre: v}
}

// render formats the detail; main goroutine only, after the tasks have joined.
func (v *Violation) render() *Violation {
	if v == nil {
		return nil
	}
	if v.format != "" {
		d := fmt.Sprintf(v.format, v.args...)
		if v.pre != nil {
			d += v.pre.render().Detail
		}
		v.Detail, v.format = d+v.Detail, ""
	}
	return v
}

// spA formats now; main goroutine only.
func spA(format string, args ...any) string { return fmt.Sprintf(format, args...) }
