package main

import (
	"unsafe"

	"pipelined.dev/signal"
	"verif.local/simrt"
)

var faultRates = []int{0, 8, 48} // out of simrt.FaultDen; index 0 = none

// drawPoolEnv draws the stub pool's behaviour for this run (schedule stream).
func drawPoolEnv(rc *runCtx) string {
	s := rc.sim
	s.Policy = s.Sched.Draw(simrt.NumPolicies)
	// About a quarter of the runs are fault-free, tallied separately (no oracle
	// is relaxed under faults: a dropped object just means more fresh ones).
	if s.Sched.Draw(4) != 0 {
		s.PutDropNum = faultRates[s.Sched.Draw(len(faultRates))]
		s.MissNum = faultRates[s.Sched.Draw(len(faultRates))]
		s.GCNum = faultRates[s.Sched.Draw(len(faultRates))] / 2
	}
	rc.tally("pool_policy", simrt.PolicyNames[s.Policy])
	ff := s.PutDropNum == 0 && s.MissNum == 0 && s.GCNum == 0
	if ff {
		rc.tally("fault_mix", "fault-free")
	} else {
		rc.tally("fault_mix", "faults-enabled")
	}
	return spA("policy=%s putdrop=%d/256 miss=%d/256 gc=%d/256", simrt.PolicyNames[s.Policy], s.PutDropNum, s.MissNum, s.GCNum)
}

type held[T signal.SignalTypes] struct {
	hdr, cur *signal.Buffer[T]
	serial   int
	hs       hist
	handle   int
	pool     int
	// shadow is a freshly allocated buffer that receives exactly the same
	// operations: "indistinguishable from a freshly allocated one" also means
	// that the obtained buffer goes on BEHAVING like one (state that no accessor
	// shows would surface as a difference later).
	shadow *signal.Buffer[T]
}

// C10: a single caller; histories of get/use/put on one pool with several
// buffers outstanding, against the stub pool with seeded faults.
func (h *H[T]) C10(rc *runCtx) *Violation {
	prog, sim := rc.prog, rc.sim
	a := drawAllocator(prog, rc.b)
	env := drawPoolEnv(rc)
	// The history continues with probability 1-1/cont after every operation
	// (a truncated tape simply stops): mean length = cont.
	nOps := rc.b.MaxOps
	if a.Channels*a.Capacity > 1024 && nOps > 60 {
		nOps = 60
	}
	cont := []int{8, 3, 24, 64, 200}[prog.Draw(5)]
	maxOut := 1 + prog.Draw(rc.b.MaxOut)
	useMask := drawMask(prog, numUse)
	marathon := false
	manyOut := false
	switch {
	case isHuge(a):
		nOps, maxOut = 14, 3
		rc.tally("shape_class", "huge")
	case a.Channels*a.Capacity > 2*rc.b.MaxK && a.Channels*a.Capacity > 512 && a.Channels < 60:
		if isMedium(a) {
			nOps, maxOut = 24, 3
		} else if maxOut > 4 {
			maxOut = 4
		}
		rc.tally("shape_class", "medium")
	case prog.Draw(rc.b.MarathonOneIn) == rc.b.MarathonOneIn-1:
		// Marathon: a very long history on a tiny shape with many buffers out,
		// for state that only goes wrong after tens of thousands of operations
		// (wrapping counters, ring indices, generation numbers).
		marathon = true
		a = signal.Allocator{Channels: 1 + prog.Draw(2), Length: prog.Draw(2), Capacity: 1 + prog.Draw(3)}
		nOps, cont, maxOut = 150000+prog.Draw(150000), 1<<30, []int{18, 25, 70, 130}[prog.Draw(4)]
		sim.MaxSteps = 1 << 28 // a library with goroutines of its own needs steps per operation
		rc.tally("shape_class", "marathon")
	case prog.Draw(64) == 63:
		// many buffers out at once on a small shape (bounded caches and rings
		// in front of the pool overflow only then)
		if a.Channels*a.Capacity > 64 {
			a.Capacity = 64 / a.Channels
			if a.Length > a.Capacity {
				a.Length = a.Capacity
			}
		}
		maxOut, cont = 40+prog.Draw(100), 200
		manyOut = true
		rc.tally("shape_class", "many-outstanding")
	default:
		rc.tally("shape_class", "ordinary")
	}
	rc.cfg = spA("alloc=%+v meanops=%d maxout=%d %s", a, cont, maxOut, env)
	sim.Tracef("config: T=%s %s", h.name, rc.cfg)

	// Pool 0 is the pool under observation. In a third of the runs a second
	// pool of the same element type and the same total capacity but another
	// shape lives next to it (state that a modified library keeps per
	// package, per type or per size must not leak between pools).
	as := []signal.Allocator{a}
	if prog.Draw(3) == 2 && a.Capacity >= 1 && !marathon {
		as = append(as, secondAllocator(prog, a, rc.b))
		rc.tally("second_pool", "yes")
	} else {
		rc.tally("second_pool", "no")
	}
	pas := make([]signal.PoolAllocator[T], len(as))
	sim.Setup(func() { // (every library call is made by a simulated task)
		for i := range as {
			pas[i] = signal.PoolAlloc[T](as[i])
		}
	})
	// The three ways a caller can hold the allocator: the original value, a
	// copy by value, a shared pointer.
	get := func(pool, handle int) (b *signal.Buffer[T], pv any) {
		defer func() { pv = recover() }()
		switch handle {
		case 0:
			return pas[pool].Get(), nil
		case 1:
			cp := pas[pool]
			return cp.Get(), nil
		}
		shared := &pas[pool]
		return shared.Get(), nil
	}
	put := func(pool, handle int, b *signal.Buffer[T]) (pv any) {
		defer func() { pv = recover() }()
		switch handle {
		case 0:
			pas[pool].Put(b)
		case 1:
			cp := pas[pool]
			cp.Put(b)
		default:
			shared := &pas[pool]
			shared.Put(b)
		}
		return nil
	}

	var out []*held[T]
	type putRec struct {
		hs     hist
		handle int
	}
	putHist := map[int]putRec{} // by object number of the header that went into the pool
	serial := 0
	gcSinceEmpty := false
	acceptedPuts := 0
	var putViol *Violation

	// crosstalk runs f, which may write through hb only, and checks that no
	// other outstanding buffer changed (oracle 2: no shared storage).
	xtalkTick := 0
	crosstalk := func(hb *held[T], what string, f func()) *Violation {
		if marathon {
			// marathons are about identity and freshness after very many
			// operations; the crosstalk snapshots run on every 97th write only
			if xtalkTick++; xtalkTick%97 != 0 {
				f()
				return nil
			}
		}
		snaps := make([][]uint64, len(out))
		for i, o := range out {
			if o != hb {
				snaps[i] = snapshotFull(o.cur)
			}
		}
		f()
		for i, o := range out {
			if o == hb || snaps[i] == nil {
				continue
			}
			after := snapshotFull(o.cur)
			if at, ok := sameSnap(snaps[i], after); !ok {
				who := 0 // (0: the call is a Get, there is no buffer yet)
				if hb != nil {
					who = hb.serial
				}
				return violf("shared-storage",
					"%s on outstanding buffer #%d changed outstanding buffer #%d at full-capacity position %d: buffers checked out at the same time share storage",
					what, who, o.serial, at)
			}
		}
		return nil
	}

	doGet := func() *Violation {
		handle := prog.Draw(3)
		stamp := prog.Draw(4) != 3
		pool := 0
		if len(as) > 1 && prog.Draw(3) == 2 {
			pool = 1
		}
		availBefore := sim.Available()
		var b *signal.Buffer[T]
		var pv any
		if v := crosstalk(nil, "Get", func() { b, pv = get(pool, handle) }); v != nil {
			return v // handing out one buffer must not touch the ones that are checked out
		}
		rc.ops++
		if pv != nil {
			return violf("get-panic", "Get panicked: %v", pv)
		}
		for _, o := range out {
			if o.hdr == b || o.cur == b {
				return violf("same-buffer-twice", "Get returned the buffer that is still checked out as #%d", o.serial)
			}
		}
		serial++
		hb := &held[T]{hdr: b, cur: b, serial: serial, handle: handle, pool: pool}
		if !marathon && as[pool].Channels*as[pool].Capacity <= 4096 {
			hb.shadow = signal.Alloc[T](as[pool])
		}
		id := sim.ObjID(unsafe.Pointer(b))
		sim.Mix(0x9000 | uint64(id)<<16)
		sim.Tracef("op: pool %d Get via handle %d -> buffer #%d (obj#%d)", pool, handle, serial, id)
		if v := freshCheck(as[pool], b); v != nil {
			if rec, ok := putHist[id]; ok {
				v.Detail = spA(" [this buffer was put back earlier; history before that put: %+v]", rec.hs)
			}
			return v
		}
		if acceptedPuts > 0 {
			// the reuse path had its chance: something was put back before this Get
			rc.nontrivial = true
		}
		if rec, ok := putHist[id]; ok {
			rc.probes[pReuse]++
			if rec.hs.appendedSample {
				rc.probes[pReuseAfterAppendSample]++
			}
			if rec.hs.appendedBuf {
				rc.probes[pReuseAfterAppendBuf]++
			}
			if rec.hs.sliced {
				rc.probes[pReuseAfterSlicePut]++
			}
			if rec.hs.dirtBeyond {
				rc.probes[pReuseDirtBeyondLen]++
			}
			if as[pool].Length > 0 {
				rc.probes[pReuseLenPositive]++
			}
			if rec.handle == 1 || handle == 1 {
				rc.probes[pReuseViaCopy]++
			}
			if rec.handle == 2 || handle == 2 {
				rc.probes[pReuseViaPointer]++
			}
			delete(putHist, id)
		} else if availBefore == 0 && gcSinceEmpty && len(putHist) > 0 {
			rc.probes[pGetAfterGCEmptied]++
		}
		if len(out) >= 3 {
			rc.probes[pGetWhile3Out]++
		}
		out = append(out, hb)
		if stamp {
			// Ownership stamp over the whole capacity: writes through this
			// buffer must not show through any other outstanding one.
			if v := crosstalk(hb, "stamping the full capacity", func() {
				defer func() { recover() }()
				f := fullView(hb.cur)
				for i := 0; i < f.Len(); i++ {
					f.SetSample(i, nonzero[T](uint64(serial)*1000003+uint64(i)))
				}
				if hb.shadow != nil {
					sf := fullView(hb.shadow)
					for i := 0; i < sf.Len(); i++ {
						sf.SetSample(i, nonzero[T](uint64(serial)*1000003+uint64(i)))
					}
				}
				if f.Len() > hb.cur.Len() {
					hb.hs.dirtBeyond = true
				}
			}); v != nil {
				return v
			}
			sim.Tracef("op: stamp full capacity of #%d", serial)
		}
		return nil
	}

	drop := func(i int) {
		out = append(out[:i], out[i+1:]...)
	}

	doPut := func(i int) {
		hb := out[i]
		handle := prog.Draw(3)
		id := sim.ObjID(unsafe.Pointer(hb.cur))
		sim.Mix(0xa000 | uint64(id)<<16)
		sim.Tracef("op: pool %d Put(#%d) via handle %d (obj#%d len=%d cap=%d; history %+v)", hb.pool, hb.serial, handle, id, hb.cur.Len(), hb.cur.Cap(), hb.hs)
		var pv any
		if v := crosstalk(hb, "Put", func() { pv = put(hb.pool, handle, hb.cur) }); v != nil && putViol == nil {
			putViol = v // returning one buffer must not touch the others that are checked out
		}
		rc.ops++
		if pv != nil {
			// A rejected put is legal (C10 constrains what is handed out, not
			// what is accepted); the buffer is simply forgotten.
			rc.probes[pRejectedPut]++
			sim.Tracef("    Put rejected: %v", pv)
		} else {
			acceptedPuts++
			putHist[id] = putRec{hb.hs, handle}
			if sim.Available() > 0 {
				gcSinceEmpty = false
			}
		}
		drop(i)
	}

	body := func() *Violation {
		for op := 0; op < nOps; op++ {
			prog.Begin()
			if op > 0 && !prog.More(cont) {
				prog.End()
				break
			}
			if sim.Sched.Coin(sim.GCNum, simrt.FaultDen) {
				sim.GC()
				if sim.Available() == 0 {
					gcSinceEmpty = true
				}
			}
			kind := prog.Draw(8)
			if manyOut && kind >= 3 && prog.Draw(2) == 0 {
				kind = prog.Draw(3) // mostly gets and puts, so that the number of buffers out wanders far
			}
			if marathon {
				// mostly gets and puts, drifting between few and many buffers out
				switch k := prog.Draw(20); {
				case k < 9:
					kind = 0
				case k < 18:
					kind = 1
				default:
					kind = 4
				}
				if len(out) >= maxOut && kind == 0 {
					kind = 1
				}
			}
			switch {
			case len(out) == 0 || (kind == 0 && len(out) < maxOut):
				if v := doGet(); v != nil {
					prog.End()
					return v
				}
			case kind == 1 || kind == 2:
				doPut(prog.Draw(len(out)))
				if putViol != nil {
					prog.End()
					return putViol
				}
			case kind == 3 && prog.Draw(4) == 0:
				i := prog.Draw(len(out))
				sim.Mix(0xb000)
				sim.Tracef("op: forget #%d", out[i].serial)
				drop(i)
			default:
				i := prog.Draw(len(out))
				hb := out[i]
				u := drawUse(prog, useMask)
				var peer *signal.Buffer[T]
				if len(out) > 1 {
					peer = out[(i+1)%len(out)].cur
				}
				sim.Mix(0xc000 | uint64(u.kind))
				grewBefore := hb.hs.grew
				panicked := false
				v := crosstalk(hb, useNames[u.kind], func() {
					panicked = h.applyUse(&hb.cur, u, peer, &hb.hs, nil, func(format string, args ...any) {
						sim.Tracef("op: use #%d: "+format, append([]any{hb.serial}, args...)...)
					})
				})
				rc.ops++
				if u.kind == uReslice && u.c%2 == 0 {
					// b = b.Slice(0, n): the caller keeps only the new view; the
					// header it got from the pool becomes garbage
					if hb.hdr != hb.cur {
						sim.ForgetObj(unsafe.Pointer(hb.hdr))
					}
					hb.hdr = hb.cur
				}
				if v == nil && hb.shadow != nil {
					v = h.shadowStep(hb, u, peer, panicked)
				}
				rc.tally("use_op", useNames[u.kind])
				if hb.hs.grew && !grewBefore {
					rc.probes[pGrownAppend]++
				}
				if v != nil {
					prog.End()
					return v
				}
			}
			prog.End()
		}
		// Epilogue: return everything, then draw buffers again — reuse is the
		// path the pool exists for.
		for len(out) > 0 && prog.Draw(4) != 3 {
			doPut(len(out) - 1)
			if putViol != nil {
				return putViol
			}
		}
		for k := 1 + prog.Draw(4); k > 0; k-- {
			if v := doGet(); v != nil {
				return v
			}
		}
		return nil
	}
	// The caller runs as a simulated task (the only one the harness creates):
	// goroutines a modified library starts, its blocking operations, timers and
	// the simulated clock are then under the scheduler's control here too.
	sim.Strategy = 1 + sim.Sched.Draw(simrt.NumStrategies-1)
	drawInner(sim)
	drawClock(sim)
	var result *Violation
	sim.Go("caller", func(*simrt.Task) { result = body() })
	sim.Run(2 * cont)
	if sim.LibPanicked {
		return nil // cut short without a verdict; nothing the abandoned tasks left behind may be read
	}
	return result
}

// shadowStep applies the use operation that was just applied to the obtained
// buffer to its freshly allocated shadow as well and compares everything that
// can be observed. The reference is the library itself (a fresh Alloc put
// through the same calls), not a model of what the calls should do.
func (h *H[T]) shadowStep(hb *held[T], u useOp, peer *signal.Buffer[T], panicked bool) *Violation {
	var shs hist
	if peer == hb.cur {
		peer = hb.shadow
	}
	spanicked := h.applyUse(&hb.shadow, u, peer, &shs, nil, nil)
	if panicked != spanicked {
		return violf("behaves-unlike-fresh", "%s on buffer #%d: panicked=%v, on a freshly allocated buffer put through the same operations panicked=%v",
			useNames[u.kind], hb.serial, panicked, spanicked)
	}
	b, f := hb.cur, hb.shadow
	if b.Channels() != f.Channels() || b.Length() != f.Length() || b.Capacity() != f.Capacity() || b.Len() != f.Len() || b.Cap() != f.Cap() {
		return violf("behaves-unlike-fresh",
			"after %s buffer #%d has length=%d capacity=%d len=%d cap=%d; a freshly allocated buffer put through the same operations has length=%d capacity=%d len=%d cap=%d",
			useNames[u.kind], hb.serial, b.Length(), b.Capacity(), b.Len(), b.Cap(), f.Length(), f.Capacity(), f.Len(), f.Cap())
	}
	if at, ok := sameSnap(snapshotFull(b), snapshotFull(f)); !ok {
		return violf("behaves-unlike-fresh",
			"after %s buffer #%d differs at full-capacity position %d from a freshly allocated buffer put through the same operations",
			useNames[u.kind], hb.serial, at)
	}
	return nil
}
