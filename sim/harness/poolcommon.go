package main

import (
	"time"

	"pipelined.dev/signal"
	"verif.local/simrt"
)

var kTable = []int{4, 0, 1, 2, 3, 5, 7, 8, 16, 33, 64, 128, 512, 1000, 4096}

// drawAllocator draws an allocator shape: C>=1 (C=0 is C20's subject),
// 0<=L<=K.
// hugeKs are the capacities (in frames) of the rare "huge" shapes: buffers of
// 64 Ki .. 1 Mi samples, where size-dependent paths of a modified library
// (parallel clearing, chunked copies, packed shape keys) begin.
var hugeKs = []int{65536, 65537, 1 << 17, 1 << 20}

func drawAllocator(prog *simrt.Stream, b Bounds) signal.Allocator {
	if prog.Draw(b.HugeOneIn) == b.HugeOneIn-1 {
		c := 1 + prog.Draw(2)
		k := hugeKs[prog.Draw(len(hugeKs))] / c
		if c == 2 && prog.Draw(2) == 1 {
			k = 65536
		}
		l := []int{0, 1, k}[prog.Draw(3)]
		return signal.Allocator{Channels: c, Length: l, Capacity: k}
	}
	if prog.Draw(b.MediumOneIn) == b.MediumOneIn-1 {
		return mediumAllocator(prog)
	}
	var c int
	switch prog.Draw(4) {
	case 0:
		c = 2
	case 1:
		c = 1
	case 2:
		c = 1 + prog.Draw(8)
	default:
		c = 1 + prog.Draw(b.MaxC)
	}
	if c > b.MaxC {
		c = b.MaxC
	}
	if prog.Draw(48) == 47 {
		c = 60 + prog.Draw(80) // rare: very wide buffers (the properties do not bound the channel count)
	}
	k := kTable[prog.Draw(len(kTable))]
	if prog.Draw(2) == 1 {
		k = prog.Draw(b.MaxK + 1) // any capacity, not only the round ones
	}
	if k > b.MaxK {
		k = b.MaxK
	}
	if maxTotal := b.MaxK * 2; c*k > maxTotal {
		k = maxTotal / c
	}
	l := 0
	switch prog.Draw(5) {
	case 0:
		l = 0
	case 1:
		l = k
	case 2:
		if k > 0 {
			l = k - 1
		}
	default:
		l = prog.Draw(k + 1)
	}
	return signal.Allocator{Channels: c, Length: l, Capacity: k}
}

// drawInner draws the inner pre-emption mode of a run (schedule stream):
// none, or a maximal gap between inner yield points (see simrt.Point).
func drawInner(sim *simrt.Sim) {
	sim.InnerG = []int{0, 4, 16, 64, 1024}[sim.Sched.Draw(5)]
	sim.InnerBudget = 48
	// Stall fault ("slow node"): a task pre-empted inside a library call may be
	// held back for many steps, which is what check-then-act and ABA windows need.
	if sim.InnerG > 0 {
		sim.StallMax = []int{0, 8, 32, 128}[sim.Sched.Draw(4)]
	}
	// One run in five pre-empts only right after atomic operations (and
	// sync.Map operations), and then often: the window of a check-then-act on
	// an atomic is one expression wide, and statement-level gaps rarely land
	// in it. Inert for a library without such operations.
	if sim.Sched.Draw(5) == 4 {
		sim.InnerSyncOnly = true
		sim.InnerG = []int{2, 3, 6}[sim.Sched.Draw(3)]
		sim.StallMax = []int{0, 8, 32, 128}[sim.Sched.Draw(4)]
	}
}

// drawClock draws the behaviour of the simulated clock (schedule stream). It
// only matters for a library that reads the time; the pinned tree does not.
func drawClock(sim *simrt.Sim) {
	sim.Procs = []int{4, 1, 2, 8, 16, 3, 6, 12, 7, 64}[sim.Sched.Draw(10)] // what the library is told about the machine
	sim.ClockTick = []time.Duration{time.Microsecond, time.Millisecond, 50 * time.Millisecond, time.Second}[sim.Sched.Draw(4)]
	if sim.Sched.Draw(2) == 1 {
		sim.ClockJumpNum = 32
		sim.ClockJumpMax = []time.Duration{time.Second, time.Minute, 24 * time.Hour}[sim.Sched.Draw(3)]
	}
}

// mediumTotal draws a number of samples between the ordinary shapes (at most
// 2*MaxK) and the huge ones: size thresholds of a modified library (chunking,
// unrolling, a parallel or word-wise path from so many samples on) lie there.
// Powers of two, their neighbours and arbitrary sizes are equally likely.
func mediumTotal(prog *simrt.Stream) int {
	total := 1 << (7 + prog.Draw(10)) // 128 .. 64 Ki
	switch prog.Draw(5) {
	case 0:
	case 1:
		total--
	case 2:
		total++
	case 3:
		total += 1 + prog.Draw(16)
	default:
		total = total/2 + 1 + prog.Draw(total/2)
	}
	return total
}

// mediumAllocator is a rare shape class between the ordinary and the huge ones.
func mediumAllocator(prog *simrt.Stream) signal.Allocator {
	total := mediumTotal(prog)
	c := []int{1, 2, 1 + prog.Draw(8)}[prog.Draw(3)]
	k := total / c
	if prog.Draw(2) == 1 {
		k = (total + c - 1) / c
	}
	l := []int{0, k, k - 1, prog.Draw(k + 1)}[prog.Draw(4)]
	return signal.Allocator{Channels: c, Length: l, Capacity: k}
}

// isMedium says whether an allocator is larger than every ordinary shape of
// either tier and not huge.
func isMedium(a signal.Allocator) bool {
	n := a.Channels * a.Capacity
	return n > 8192 && n < 65536
}

// isHuge says whether an allocator is one of the rare huge shapes (the
// harnesses then keep histories short).
func isHuge(a signal.Allocator) bool { return a.Channels*a.Capacity >= 65536 }

// secondAllocator draws the shape of the pool that lives next to the observed
// one: same element type and a related shape (state a modified library keeps
// per package, per type or per size must not leak between pools).
func secondAllocator(prog *simrt.Stream, a signal.Allocator, b Bounds) signal.Allocator {
	var o signal.Allocator
	switch prog.Draw(3) {
	case 0: // same total capacity, channels and frames swapped
		o = signal.Allocator{Channels: a.Capacity, Capacity: a.Channels}
		if o.Channels > 4*b.MaxC {
			o = signal.Allocator{Channels: 1, Capacity: a.Channels * a.Capacity}
		}
		o.Length = prog.Draw(o.Capacity + 1)
		if isHuge(a) {
			o.Length = prog.Draw(2)
		}
	case 1: // same channels and capacity, another length
		o = a
		if a.Length > 0 && prog.Draw(2) == 0 {
			o.Length = a.Length - 1
		} else if a.Length < a.Capacity {
			o.Length = a.Length + 1
		} else {
			o.Length = 0
		}
	default: // same capacity in frames, one channel more or less
		o = a
		if a.Channels > 1 && prog.Draw(2) == 0 {
			o.Channels--
		} else {
			o.Channels++
		}
	}
	return o
}

// freshCheck is oracle 1 of C10/C11: b must be observationally equal to
// signal.Alloc[T](a) evaluated now. It compares the library against itself,
// so what Alloc returns (C13's subject) cancels out.
func freshCheck[T signal.SignalTypes](a signal.Allocator, b *signal.Buffer[T]) (v *Violation) {
	defer func() {
		if r := recover(); r != nil {
			v = violf("not-fresh-shape", "inspecting the obtained buffer panicked: %v", r)
		}
	}()
	if b == nil {
		return violf("not-fresh-shape", "Get returned a nil buffer")
	}
	f := signal.Alloc[T](a)
	if b.Channels() != f.Channels() || b.Length() != f.Length() || b.Capacity() != f.Capacity() ||
		b.Len() != f.Len() || b.Cap() != f.Cap() || b.BitDepth() != f.BitDepth() {
		return violf("not-fresh-shape",
			"obtained buffer has channels=%d length=%d capacity=%d len=%d cap=%d bitdepth=%d; a fresh Alloc(%+v) has channels=%d length=%d capacity=%d len=%d cap=%d bitdepth=%d",
			b.Channels(), b.Length(), b.Capacity(), b.Len(), b.Cap(), int(b.BitDepth()), a,
			f.Channels(), f.Length(), f.Capacity(), f.Len(), f.Cap(), int(f.BitDepth()))
	}
	bf, ff := fullView(b), fullView(f)
	if bf.Len() != ff.Len() {
		return violf("not-fresh-shape", "full-capacity view has %d samples, fresh one has %d", bf.Len(), ff.Len())
	}
	for i := 0; i < bf.Len(); i++ {
		if x, y := bitsOf(bf.Sample(i)), bitsOf(ff.Sample(i)); x != y {
			where := "within the length"
			if i >= b.Len() {
				where = "beyond the length, inside the capacity"
			}
			return violf("not-fresh-content",
				"obtained buffer reads %#x at interleaved position %d (%s; len=%d cap=%d); a fresh buffer reads %#x",
				x, i, where, b.Len(), b.Cap(), y)
		}
	}
	return nil
}

// Use operations on a held buffer (the quantifier's "use": append samples,
// append buffers, write, set samples, reslice from frame 0; plus striped
// writes and conversions into the buffer).
const (
	uAppendSample = iota
	uSetSample
	uWrite
	uReslice
	uDirtBeyond
	uAppendBuf
	uWriteStriped
	uConvDst
	numUse
)

var useNames = [numUse]string{"AppendSample*n", "SetSample", "Write", "Slice(0,n)", "SetSample-beyond-length", "Append(buffer)", "WriteStriped", "conversion-into"}

type useOp struct {
	kind    int
	a, b, c uint64
}

// drawMask is swarm testing's "vary the workload mix per run": a third of the
// runs use every kind of operation, a third a drawn subset (about half of the
// kinds), a third the intersection of two subsets (about a quarter). A flaw
// that needs the same two or three kinds of operation to meet on one buffer
// is far more likely to be hit when few kinds are in play.
func drawMask(prog *simrt.Stream, n int) uint32 {
	all := uint32(1)<<uint(n) - 1
	var m uint32
	switch prog.Draw(3) {
	case 0:
		return all
	case 1:
		m = uint32(prog.Draw(int(all) + 1))
	default:
		m = uint32(prog.Draw(int(all)+1)) & uint32(prog.Draw(int(all)+1))
	}
	if m == 0 {
		return all
	}
	return m
}

// maskedKind maps a drawn kind to the next kind the run's mask enables.
func maskedKind(k, n int, mask uint32) int {
	for i := 0; i < n; i++ {
		if j := (k + i) % n; mask>>uint(j)&1 == 1 {
			return j
		}
	}
	return k
}

func drawUse(prog *simrt.Stream, mask uint32) useOp {
	return useOp{kind: maskedKind(prog.Draw(numUse), numUse, mask), a: uint64(prog.Draw(1 << 16)), b: uint64(prog.Draw(1 << 16)), c: uint64(prog.Draw(1 << 16))}
}

// hist records what has been done to a buffer since it was obtained.
type hist struct {
	appendedSample, appendedBuf, grew, sliced, dirtBeyond bool
}

// applyUse performs op on *cur (which may be replaced by a reslice). Panics of
// the operation itself are not this property's subject: they are swallowed and
// reported through panicked. peer, if non-nil, may be used as an Append source.
// logf receives one description of what was done (format+args, never
// formatted here: see Violation).
func (h *H[T]) applyUse(cur **signal.Buffer[T], op useOp, peer *signal.Buffer[T], hs *hist, point func(), logf func(string, ...any)) (panicked bool) {
	var desc string
	var dargs []any
	d := func(format string, args ...any) { desc, dargs = format, args }
	defer func() {
		if r := recover(); r != nil {
			desc += " PANIC(%v)"
			dargs = append(dargs, r)
			panicked = true
		}
		if logf != nil {
			logf(desc, dargs...)
		}
	}()
	b := *cur
	switch op.kind {
	case uAppendSample:
		n := 1 + int(op.a)%(b.Cap()+3)
		if n > 96 {
			n = 96 + n%8
		}
		d("AppendSample x%d", n)
		for i := 0; i < n; i++ {
			b.AppendSample(nonzero[T](op.b + uint64(i)))
			if point != nil {
				point()
			}
		}
		hs.appendedSample = true
	case uSetSample:
		if b.Len() == 0 {
			d("SetSample (skipped: empty)")
			return false
		}
		i := int(op.a) % b.Len()
		d("SetSample(%d)", i)
		b.SetSample(i, nonzero[T](op.b))
	case uWrite:
		n := int((op.a<<16 ^ op.b) % uint64(b.Len()+3))
		if op.c%2 == 0 {
			n = b.Len()
		}
		d("Write(%d values)", n)
		vals := make([]T, n)
		for i := range vals {
			vals[i] = nonzero[T](op.b + uint64(i))
		}
		signal.Write(vals, b)
	case uReslice:
		n := int(op.a) % (b.Capacity() + 1)
		d("Slice(0,%d)", n)
		*cur = b.Slice(0, n)
		hs.sliced = true
	case uDirtBeyond:
		full := fullView(b)
		if full.Len() == 0 {
			d("SetSample beyond length (skipped: no capacity)")
			return false
		}
		i := int(op.a) % full.Len()
		if full.Len() > b.Len() {
			i = b.Len() + int(op.a)%(full.Len()-b.Len())
			hs.dirtBeyond = true
		}
		d("Slice(0,Capacity).SetSample(%d) [len=%d]", i, b.Len())
		full.SetSample(i, nonzero[T](op.b))
	case uAppendBuf:
		spare := b.Capacity() - b.Length()
		if spare < 0 {
			spare = 0
		}
		capBefore := b.Cap()
		switch mode := int(op.a) % 4; {
		case mode == 3 && peer != nil:
			d("Append(other outstanding buffer, %d frames)", peer.Length())
			b.Append(peer)
		case mode == 2:
			d("Append(self)")
			b.Append(b)
		default:
			frames := int(op.b) % (spare + 1)
			if mode == 1 {
				frames = spare + 1 + int(op.b)%3
			}
			d("Append(private %d frames; spare %d)", frames, spare)
			src := signal.Alloc[T](signal.Allocator{Channels: b.Channels(), Length: frames, Capacity: frames})
			for i := 0; i < src.Len(); i++ {
				src.SetSample(i, nonzero[T](op.c+uint64(i)))
			}
			b.Append(src)
		}
		hs.appendedBuf = true
		if b.Cap() != capBefore {
			hs.grew = true
			desc += " [grew]"
		}
	case uWriteStriped:
		c := b.Channels()
		src := make([][]T, c)
		for ch := range src {
			n := int(op.a+op.b*uint64(ch)) % (b.Length() + 3)
			if n == b.Length()+2 {
				continue // nil channel
			}
			src[ch] = make([]T, n)
			for i := range src[ch] {
				src[ch][i] = nonzero[T](op.c + uint64(ch*131+i))
			}
		}
		d("WriteStriped")
		signal.WriteStriped(src, b)
	case uConvDst:
		cv := h.convDst[int(op.a)%len(h.convDst)]
		frames := int(op.b) % (b.Length() + 2)
		d("%s from %d frames", cv.name, frames)
		cv.f(b, frames, op.c)
	}
	return false
}

// snapshotFull reads the full-capacity contents of b (bit patterns).
func snapshotFull[T signal.SignalTypes](b *signal.Buffer[T]) (s []uint64) {
	defer func() {
		if recover() != nil {
			s = nil
		}
	}()
	f := fullView(b)
	s = make([]uint64, f.Len())
	for i := range s {
		s[i] = bitsOf(f.Sample(i))
	}
	return s
}

func sameSnap(a, b []uint64) (int, bool) {
	if len(a) != len(b) {
		return -1, false
	}
	for i := range a {
		if a[i] != b[i] {
			return i, false
		}
	}
	return 0, true
}
