module verif.local/harness

go 1.21

require (
	pipelined.dev/signal v0.0.0
	verif.local/simrt v0.0.0
)

replace pipelined.dev/signal => ../signal

replace verif.local/simrt => ../simrt
