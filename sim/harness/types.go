package main

import (
	"unsafe"

	"golang.org/x/exp/constraints"
	"pipelined.dev/signal"
)

// named16 is a named element type (the properties quantify over "named types
// derived from the built-in ones" too).
type named16 int16

// bitsOf returns the bit pattern of v (works for named types and NaNs).
func bitsOf[T signal.SignalTypes](v T) uint64 {
	switch unsafe.Sizeof(v) {
	case 1:
		return uint64(*(*uint8)(unsafe.Pointer(&v)))
	case 2:
		return uint64(*(*uint16)(unsafe.Pointer(&v)))
	case 4:
		return uint64(*(*uint32)(unsafe.Pointer(&v)))
	}
	return *(*uint64)(unsafe.Pointer(&v))
}

// fromBits builds a T from the low bits of u.
func fromBits[T signal.SignalTypes](u uint64) T {
	var v T
	switch unsafe.Sizeof(v) {
	case 1:
		*(*uint8)(unsafe.Pointer(&v)) = uint8(u)
	case 2:
		*(*uint16)(unsafe.Pointer(&v)) = uint16(u)
	case 4:
		*(*uint32)(unsafe.Pointer(&v)) = uint32(u)
	default:
		*(*uint64)(unsafe.Pointer(&v)) = u
	}
	return v
}

// nonzero returns a value whose bit pattern is never all-zero, derived from k.
func nonzero[T signal.SignalTypes](k uint64) T {
	var v T
	w := uint64(unsafe.Sizeof(v)) * 8
	k = k*0x9e3779b97f4a7c15 + 0x632be59bd9b4e019
	k ^= k >> 29
	if w < 64 {
		k &= (1 << w) - 1
	}
	if k == 0 {
		k = 1
	}
	return fromBits[T](k)
}

// arb returns an arbitrary bit pattern (extremes, NaN/Inf for floats included).
func arb[T signal.SignalTypes](k uint64) T {
	var v T
	w := uint64(unsafe.Sizeof(v)) * 8
	switch k % 11 {
	case 0:
		return fromBits[T](0)
	case 1:
		return fromBits[T](^uint64(0)) // -1 / max unsigned / NaN
	case 2:
		return fromBits[T](uint64(1) << (w - 1)) // min signed / -0.0
	case 3:
		return fromBits[T]((uint64(1) << (w - 1)) - 1) // max signed / NaN
	case 4:
		if w == 32 {
			return fromBits[T](0x7f800000) // +Inf as float32
		}
		return fromBits[T](0x7ff0000000000000)
	}
	return nonzero[T](k)
}

// nice returns an "ordinary" sample: for floating types a value in [-1.25,1.25]
// in steps of 1/1000 (the range conversions care about, a little beyond it to
// reach clipping), for integer types a small value around zero.
func nice[T signal.SignalTypes](k uint64) T {
	var v T
	x := int64(k%2501) - 1250
	switch any(&v).(type) {
	case *float32:
		f := float32(x) / 1000
		return *(*T)(unsafe.Pointer(&f))
	case *float64:
		f := float64(x) / 1000
		return *(*T)(unsafe.Pointer(&f))
	}
	return T(x % 100)
}

func mix64(h *uint64, v uint64) {
	*h ^= v
	*h *= 1099511628211
	*h ^= *h >> 32
}

// fullView returns the view of b over its whole capacity (a reslice from
// frame 0, as the properties allow).
func fullView[T signal.SignalTypes](b *signal.Buffer[T]) *signal.Buffer[T] {
	return b.Slice(0, b.Capacity())
}

// convDst is a conversion with a *Buffer[T] as destination, fed from a
// private source buffer built from seed.
type convDst[T signal.SignalTypes] struct {
	name string
	f    func(dst *signal.Buffer[T], srcFrames int, seed uint64) int
}

// convSrc is a conversion with a *Buffer[T] as source into a private
// destination; the destination's contents are folded into digest.
type convSrc[T signal.SignalTypes] struct {
	name string
	f    func(src *signal.Buffer[T], dstFrames int, digest *uint64) int
}

func mkDst[S, T signal.SignalTypes](name string, conv func(*signal.Buffer[S], *signal.Buffer[T]) int) convDst[T] {
	return convDst[T]{name, func(dst *signal.Buffer[T], srcFrames int, seed uint64) int {
		c := dst.Channels()
		src := signal.Alloc[S](signal.Allocator{Channels: c, Length: srcFrames, Capacity: srcFrames})
		for i := 0; i < src.Len(); i++ {
			if seed%3 == 0 {
				src.SetSample(i, nice[S](seed+uint64(i)*131))
			} else {
				src.SetSample(i, arb[S](seed+uint64(i)))
			}
		}
		return conv(src, dst)
	}}
}

func mkSrc[T, D signal.SignalTypes](name string, conv func(*signal.Buffer[T], *signal.Buffer[D]) int) convSrc[T] {
	return convSrc[T]{name, func(src *signal.Buffer[T], dstFrames int, digest *uint64) int {
		c := src.Channels()
		dst := signal.Alloc[D](signal.Allocator{Channels: c, Length: dstFrames, Capacity: dstFrames})
		n := conv(src, dst)
		for i := 0; i < dst.Len(); i++ {
			mix64(digest, bitsOf(dst.Sample(i)))
		}
		mix64(digest, uint64(n))
		return n
	}}
}

// H is the harness instantiated for one element type.
type H[T signal.SignalTypes] struct {
	name    string
	convDst []convDst[T]
	convSrc []convSrc[T]
	// convSame converts between two buffers of this element type (used with a
	// read-only window of the shared buffer as source and a writer's own
	// window of the same buffer as destination).
	convSame func(src, dst *signal.Buffer[T]) int
}

type runner interface {
	Name() string
	C10(rc *runCtx) *Violation
	C11(rc *runCtx) *Violation
	C19(rc *runCtx) *Violation
}

func (h *H[T]) Name() string { return h.name }

func floatH[T constraints.Float](name string) runner {
	return &H[T]{name: name, convSame: signal.FloatAsFloat[T, T],
		convDst: []convDst[T]{
			mkDst[float32, T]("FloatAsFloat[float32,T]", signal.FloatAsFloat[float32, T]),
			mkDst[float64, T]("FloatAsFloat[float64,T]", signal.FloatAsFloat[float64, T]),
			mkDst[int8, T]("SignedAsFloat[int8,T]", signal.SignedAsFloat[int8, T]),
			mkDst[int32, T]("SignedAsFloat[int32,T]", signal.SignedAsFloat[int32, T]),
			mkDst[int64, T]("SignedAsFloat[int64,T]", signal.SignedAsFloat[int64, T]),
			mkDst[uint8, T]("UnsignedAsFloat[uint8,T]", signal.UnsignedAsFloat[uint8, T]),
			mkDst[uint16, T]("UnsignedAsFloat[uint16,T]", signal.UnsignedAsFloat[uint16, T]),
			mkDst[uint64, T]("UnsignedAsFloat[uint64,T]", signal.UnsignedAsFloat[uint64, T]),
		},
		convSrc: []convSrc[T]{
			mkSrc[T, float32]("FloatAsFloat[T,float32]", signal.FloatAsFloat[T, float32]),
			mkSrc[T, float64]("FloatAsFloat[T,float64]", signal.FloatAsFloat[T, float64]),
			mkSrc[T, int8]("FloatAsSigned[T,int8]", signal.FloatAsSigned[T, int8]),
			mkSrc[T, int32]("FloatAsSigned[T,int32]", signal.FloatAsSigned[T, int32]),
			mkSrc[T, int64]("FloatAsSigned[T,int64]", signal.FloatAsSigned[T, int64]),
			mkSrc[T, uint8]("FloatAsUnsigned[T,uint8]", signal.FloatAsUnsigned[T, uint8]),
			mkSrc[T, uint16]("FloatAsUnsigned[T,uint16]", signal.FloatAsUnsigned[T, uint16]),
			mkSrc[T, uint64]("FloatAsUnsigned[T,uint64]", signal.FloatAsUnsigned[T, uint64]),
		}}
}

func signedH[T constraints.Signed](name string) runner {
	return &H[T]{name: name, convSame: signal.SignedAsSigned[T, T],
		convDst: []convDst[T]{
			mkDst[float32, T]("FloatAsSigned[float32,T]", signal.FloatAsSigned[float32, T]),
			mkDst[float64, T]("FloatAsSigned[float64,T]", signal.FloatAsSigned[float64, T]),
			mkDst[int8, T]("SignedAsSigned[int8,T]", signal.SignedAsSigned[int8, T]),
			mkDst[int32, T]("SignedAsSigned[int32,T]", signal.SignedAsSigned[int32, T]),
			mkDst[int64, T]("SignedAsSigned[int64,T]", signal.SignedAsSigned[int64, T]),
			mkDst[uint8, T]("UnsignedAsSigned[uint8,T]", signal.UnsignedAsSigned[uint8, T]),
			mkDst[uint16, T]("UnsignedAsSigned[uint16,T]", signal.UnsignedAsSigned[uint16, T]),
			mkDst[uint64, T]("UnsignedAsSigned[uint64,T]", signal.UnsignedAsSigned[uint64, T]),
		},
		convSrc: []convSrc[T]{
			mkSrc[T, float32]("SignedAsFloat[T,float32]", signal.SignedAsFloat[T, float32]),
			mkSrc[T, float64]("SignedAsFloat[T,float64]", signal.SignedAsFloat[T, float64]),
			mkSrc[T, int8]("SignedAsSigned[T,int8]", signal.SignedAsSigned[T, int8]),
			mkSrc[T, int32]("SignedAsSigned[T,int32]", signal.SignedAsSigned[T, int32]),
			mkSrc[T, int64]("SignedAsSigned[T,int64]", signal.SignedAsSigned[T, int64]),
			mkSrc[T, uint8]("SignedAsUnsigned[T,uint8]", signal.SignedAsUnsigned[T, uint8]),
			mkSrc[T, uint16]("SignedAsUnsigned[T,uint16]", signal.SignedAsUnsigned[T, uint16]),
			mkSrc[T, uint64]("SignedAsUnsigned[T,uint64]", signal.SignedAsUnsigned[T, uint64]),
		}}
}

func unsignedH[T constraints.Unsigned](name string) runner {
	return &H[T]{name: name, convSame: signal.UnsignedAsUnsigned[T, T],
		convDst: []convDst[T]{
			mkDst[float32, T]("FloatAsUnsigned[float32,T]", signal.FloatAsUnsigned[float32, T]),
			mkDst[float64, T]("FloatAsUnsigned[float64,T]", signal.FloatAsUnsigned[float64, T]),
			mkDst[int8, T]("SignedAsUnsigned[int8,T]", signal.SignedAsUnsigned[int8, T]),
			mkDst[int32, T]("SignedAsUnsigned[int32,T]", signal.SignedAsUnsigned[int32, T]),
			mkDst[int64, T]("SignedAsUnsigned[int64,T]", signal.SignedAsUnsigned[int64, T]),
			mkDst[uint8, T]("UnsignedAsUnsigned[uint8,T]", signal.UnsignedAsUnsigned[uint8, T]),
			mkDst[uint16, T]("UnsignedAsUnsigned[uint16,T]", signal.UnsignedAsUnsigned[uint16, T]),
			mkDst[uint64, T]("UnsignedAsUnsigned[uint64,T]", signal.UnsignedAsUnsigned[uint64, T]),
		},
		convSrc: []convSrc[T]{
			mkSrc[T, float32]("UnsignedAsFloat[T,float32]", signal.UnsignedAsFloat[T, float32]),
			mkSrc[T, float64]("UnsignedAsFloat[T,float64]", signal.UnsignedAsFloat[T, float64]),
			mkSrc[T, int8]("UnsignedAsSigned[T,int8]", signal.UnsignedAsSigned[T, int8]),
			mkSrc[T, int32]("UnsignedAsSigned[T,int32]", signal.UnsignedAsSigned[T, int32]),
			mkSrc[T, int64]("UnsignedAsSigned[T,int64]", signal.UnsignedAsSigned[T, int64]),
			mkSrc[T, uint8]("UnsignedAsUnsigned[T,uint8]", signal.UnsignedAsUnsigned[T, uint8]),
			mkSrc[T, uint16]("UnsignedAsUnsigned[T,uint16]", signal.UnsignedAsUnsigned[T, uint16]),
			mkSrc[T, uint64]("UnsignedAsUnsigned[T,uint64]", signal.UnsignedAsUnsigned[T, uint64]),
		}}
}

// elemTypes: the 13 built-in numeric types plus one named type. Index 0 is
// the simplest choice for tape minimisation.
var elemTypes = []runner{
	signedH[int16]("int16"),
	floatH[float64]("float64"),
	unsignedH[uint8]("uint8"),
	signedH[int8]("int8"),
	signedH[int32]("int32"),
	signedH[int64]("int64"),
	signedH[int]("int"),
	unsignedH[uint16]("uint16"),
	unsignedH[uint32]("uint32"),
	unsignedH[uint64]("uint64"),
	unsignedH[uint]("uint"),
	unsignedH[uintptr]("uintptr"),
	floatH[float32]("float32"),
	signedH[named16]("named16(int16)"),
}
