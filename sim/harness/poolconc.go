package main

func (h *H[T]) C11(rc *runCtx) *Violation { return nil }
