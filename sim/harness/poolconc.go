package main

import (
	"sort"
	"unsafe"

	"pipelined.dev/signal"
	"verif.local/simrt"
)

// cycle is one get/use/put cycle of a C11 task, fully drawn before any task
// starts (arguments that depend on run-time state are stored raw and reduced
// when executed).
type cycle struct {
	handle   int // 0 shared pointer, 1 the task's own by-value copy, 2 a fresh by-value copy made now
	uses     []useOp
	inner    bool // sample-at-a-time loops offer inner yield points
	hold     int
	putMode  int  // 0 put as is, 1 put Slice(0,n), 2 forget, 3 hand the buffer to another task
	fromMail bool // start the cycle with a buffer another task handed over, if there is one
	putArg   uint64
	second   bool // hold a second buffer during this cycle
	extra    int  // long runs: this many further buffers are obtained in one burst and returned together
	pool     int  // which pool the cycle works on (a second pool of another shape may live next to pool 0)
}

const (
	evGet = iota
	evPut
	evForget
	evTake // received from another task (not from the pool)
	evGive // handed to another task
)

type poolEvent struct {
	step, task, kind, obj int
	rejected              bool
	root                  int // evGive: the header the giver had obtained (obj is the view it hands over)
}

type taskState struct {
	events []poolEvent
	viol   *Violation
	vstep  int
}

func stampVal[T signal.SignalTypes](task, cyc, which, i int) T {
	return nonzero[T](uint64(task)<<40 ^ uint64(cyc)<<24 ^ uint64(which)<<20 ^ uint64(i))
}

// C11: G caller tasks sharing one pool allocator under the seeded scheduler.
func (h *H[T]) C11(rc *runCtx) *Violation {
	prog, sim := rc.prog, rc.sim
	a := drawAllocator(prog, rc.b)
	medium := a.Channels*a.Capacity > 2*rc.b.MaxK && a.Channels*a.Capacity > 512 && a.Channels < 60
	if a.Channels*a.Capacity > 2048 && !medium { // race-build cost; large shapes are C10's business
		a.Capacity = 2048 / a.Channels
		if a.Length > a.Capacity {
			a.Length = a.Capacity
		}
	}
	// Two rare classes of runs: big buffers (size-dependent paths such as
	// parallel clearing, with few tasks and cycles), and long runs (hundreds of
	// cycles on a tiny shape with many tasks: counters, batches and trims that
	// only matter after a thousand operations).
	maxG, maxM, class := rc.b.MaxG, rc.b.MaxM, "ordinary"
	switch {
	case prog.Draw(rc.b.HugeOneIn) == rc.b.HugeOneIn-1:
		c := 1 + prog.Draw(2)
		k := []int{32768, 40000, 65536, 1 << 17}[prog.Draw(4)] / c
		a = signal.Allocator{Channels: c, Length: []int{0, 1, k}[prog.Draw(3)], Capacity: k}
		maxG, maxM, class = 4, 2, "big"
	case prog.Draw(rc.b.LongOneIn) == rc.b.LongOneIn-1:
		a = signal.Allocator{Channels: 1 + prog.Draw(2), Length: prog.Draw(2), Capacity: 1 + prog.Draw(3)}
		maxG, maxM, class = 8+prog.Draw(9), 60+prog.Draw(140), "long"
		sim.MaxSteps = 1 << 22
	}
	if class == "ordinary" && medium {
		class = "medium"
		if a.Channels*a.Capacity > 4096 {
			maxG, maxM = 4, 3
		}
	}
	rc.tally("run_class", class)
	env := drawPoolEnv(rc)
	// Tasks, cycles and use operations are drawn as nested units, each
	// preceded by the draw that decides whether it exists (0 = stop), so that a
	// truncated or span-deleted tape is still a well-formed, smaller program.
	as := []signal.Allocator{a}
	if prog.Draw(3) == 2 && a.Capacity >= 1 {
		// same element type, same total capacity, another shape: state a
		// modified library keeps per package, type or size must not leak
		b := signal.Allocator{Channels: a.Capacity, Capacity: a.Channels}
		if b.Channels > 4*rc.b.MaxC {
			b = signal.Allocator{Channels: 1, Capacity: a.Channels * a.Capacity}
		}
		b.Length = prog.Draw(b.Capacity + 1)
		as = append(as, b)
	}
	contG := []int{2, 3, 8, 32}[prog.Draw(4)]
	contM := []int{2, 4, 8}[prog.Draw(3)]
	if class == "long" {
		contG, contM = 1<<20, 1<<20
	}
	useMask := drawMask(prog, numUse)
	shareMode := prog.Draw(3) // 0 one shared pointer, 1 per-task copies by value, 2 mixed per cycle
	var progs [][]cycle
	estSteps := 0
	for t := 0; t < maxG; t++ {
		prog.Begin()
		if t >= 2 && !prog.More(contG) {
			prog.End()
			break
		}
		var cycles []cycle
		maxM := maxM
		if t >= 16 && maxM > 4 && class != "long" {
			maxM = 4
		}
		for c := 0; c < maxM; c++ {
			prog.Begin()
			if c >= 1 && !prog.More(contM) {
				prog.End()
				break
			}
			var cy cycle
			switch shareMode {
			case 0:
				cy.handle = 0
			case 1:
				cy.handle = 1
			default:
				cy.handle = prog.Draw(3)
			}
			for n := 0; n < 3; n++ {
				prog.Begin()
				if !prog.More(2) {
					prog.End()
					break
				}
				cy.uses = append(cy.uses, drawUse(prog, useMask))
				prog.End()
			}
			cy.inner = prog.Draw(3) == 2
			cy.hold = prog.Draw(4)
			switch prog.Draw(8) {
			case 5, 6:
				cy.putMode = 1
			case 7:
				cy.putMode = 2
			case 4:
				cy.putMode = 3
			}
			cy.fromMail = prog.Draw(4) == 3
			cy.putArg = uint64(prog.Draw(1 << 16))
			cy.second = prog.Draw(6) == 5
			if len(as) > 1 && prog.Draw(4) == 3 {
				cy.pool = 1
				cy.fromMail, cy.second = false, false
				if cy.putMode == 3 {
					cy.putMode = 0
				}
			}
			if class == "long" && prog.Draw(4) == 3 {
				cy.extra = 1 + prog.Draw(24) // deep pools and bursts of gets
			}
			estSteps += 8 + len(cy.uses) + cy.hold + 4*cy.extra
			cycles = append(cycles, cy)
			prog.End()
		}
		progs = append(progs, cycles)
		prog.End()
	}
	g := len(progs)
	m := 0
	for _, cs := range progs {
		if len(cs) > m {
			m = len(cs)
		}
	}
	sim.Strategy = 1 + sim.Sched.Draw(simrt.NumStrategies-1) // never the sequential reference
	sim.StickyP = []int{2, 4, 8, 16}[sim.Sched.Draw(4)]
	drawInner(sim)
	drawClock(sim)
	if class == "long" {
		// pre-emption must still be available after thousands of steps, and a
		// stalled task must be able to miss a whole burst of other tasks' work
		sim.InnerBudget = 4000
		if sim.StallMax > 0 && sim.Sched.Draw(2) == 1 {
			sim.StallMax = 512
		}
	}
	// Inner pre-emption is spent where it matters: inside the pool operations
	// and the use operations, not inside the harness's own check loops.
	sim.InnerSites = 1<<sGet | 1<<sPut | 1<<sUse
	rc.tally("strategy", simrt.StrategyNames[sim.Strategy])
	rc.tally("tasks", spA("%d", g))
	rc.tally("inner_gap", spA("%d", sim.InnerG))
	rc.tally("second_pool", spA("%v", len(as) > 1))
	rc.tally("share_mode", []string{"shared-pointer", "by-value-copies", "mixed"}[shareMode])
	rc.cfg = spA("alloc=%+v G=%d maxM=%d share=%d strategy=%s stickyP=%d innerG=%d %s", a, g, m, shareMode,
		simrt.StrategyNames[sim.Strategy], sim.StickyP, sim.InnerG, env)
	sim.Tracef("config: T=%s %s", h.name, rc.cfg)
	if shareMode != 0 {
		rc.probes[pByValueCopies]++
	}

	pas := make([]signal.PoolAllocator[T], len(as))
	sim.Setup(func() { // (every library call is made by a simulated task)
		for i := range as {
			pas[i] = signal.PoolAlloc[T](as[i])
		}
	})
	states := make([]*taskState, g)
	// Per-task counters are task-local and summed after the join, so that
	// the harness itself shares nothing between tasks.
	taskOps := make([]int, g)
	taskTwo := make([]int64, g)
	taskHanded := make([]int64, g)
	roots := make([]*simrt.Task, g) // (the library may start tasks of its own)
	for ti := 0; ti < g; ti++ {
		ti := ti
		ts := &taskState{}
		states[ti] = ts
		own := append([]signal.PoolAllocator[T]{}, pas...) // the task's own copies of the allocator values (made before the tasks start)
		roots[ti] = sim.Go(spA("caller%d", ti), func(t *simrt.Task) {
			ops, two, handed := 0, int64(0), int64(0)
			defer func() { taskOps[ti], taskTwo[ti], taskHanded[ti] = ops, two, handed }()
			fail := func(v *Violation) {
				if ts.viol == nil {
					ts.viol = v
					ts.vstep = t.Step
				}
			}
			handleOf := func(cy *cycle) *signal.PoolAllocator[T] {
				switch cy.handle {
				case 0:
					return &pas[cy.pool]
				case 1:
					return &own[cy.pool]
				}
				cp := pas[cy.pool]
				return &cp
			}
			acquire := func(cy *cycle, cyc, which int) (b *signal.Buffer[T], ok bool) {
				t.Yield(sGet)
				var pv any
				func() {
					defer func() { pv = recover() }()
					b = handleOf(cy).Get()
				}()
				ops++
				if pv != nil {
					fail(violf("get-panic", "task %d: Get panicked: %v", ti, pv))
					return nil, false
				}
				id := sim.ObjID(unsafe.Pointer(b))
				ts.events = append(ts.events, poolEvent{step: t.Step, task: ti, kind: evGet, obj: id})
				sim.Mix(0x9000 | uint64(id)<<16)
				sim.Tracef("  task %d cycle %d: Get -> obj#%d", ti, cyc, id)
				t.Yield(sFresh)
				if v := freshCheck(as[cy.pool], b); v != nil {
					fail(v.prefixed("task %d cycle %d, obj#%d: ", ti, cyc, id))
					return nil, false
				}
				return b, true
			}
			stamp := func(b *signal.Buffer[T], cy *cycle, cyc, which int) bool {
				t.Yield(sStamp)
				ok := true
				func() {
					defer func() {
						if r := recover(); r != nil {
							fail(violf("ownership-lost", "task %d cycle %d: stamping its own buffer panicked: %v", ti, cyc, r))
							ok = false
						}
					}()
					f := fullView(b)
					for i := 0; i < f.Len(); i++ {
						f.SetSample(i, stampVal[T](ti, cyc, which, i))
						if cy.inner {
							simrt.Point()
						}
					}
				}()
				return ok
			}
			var verifyAs func(b *signal.Buffer[T], cy *cycle, st, sc, cyc int) bool
			verify := func(b *signal.Buffer[T], cy *cycle, cyc, which int) bool {
				if which == 0 {
					return verifyAs(b, cy, ti, cyc, cyc)
				}
				ok := true
				func() {
					defer func() {
						if r := recover(); r != nil {
							fail(violf("ownership-lost", "task %d cycle %d: re-reading its own buffer panicked: %v", ti, cyc, r))
							ok = false
						}
					}()
					f := fullView(b)
					for i := 0; i < f.Len(); i++ {
						if got, want := bitsOf(f.Sample(i)), bitsOf(stampVal[T](ti, cyc, which, i)); got != want {
							fail(violf("ownership-lost", "task %d cycle %d: position %d of the buffer it holds (obj#%d) reads %#x, it had written %#x: another party wrote into storage this task holds",
								ti, cyc, i, sim.ObjID(unsafe.Pointer(b)), got, want))
							ok = false
							return
						}
						if cy.inner {
							simrt.Point()
						}
					}
				}()
				return ok
			}
			verifyAs = func(b *signal.Buffer[T], cy *cycle, st, sc, cyc int) bool {
				ok := true
				func() {
					defer func() {
						if r := recover(); r != nil {
							fail(violf("ownership-lost", "task %d cycle %d: re-reading the buffer it holds panicked: %v", ti, cyc, r))
							ok = false
						}
					}()
					f := fullView(b)
					for i := 0; i < f.Len(); i++ {
						if got, want := bitsOf(f.Sample(i)), bitsOf(stampVal[T](st, sc, 0, i)); got != want {
							fail(violf("ownership-lost",
								"task %d cycle %d: position %d of the buffer it holds (obj#%d, stamped by task %d) reads %#x, the stamp was %#x: another party wrote into storage this task holds",
								ti, cyc, i, sim.ObjID(unsafe.Pointer(b)), st, got, want))
							ok = false
							return
						}
						if cy.inner {
							simrt.Point()
						}
					}
				}()
				return ok
			}
			release := func(b *signal.Buffer[T], hdr *signal.Buffer[T], cy *cycle, cyc int) {
				if cy.putMode == 3 {
					t.Yield(sPut)
					ts.events = append(ts.events, poolEvent{step: t.Step, task: ti, kind: evGive, obj: sim.ObjID(unsafe.Pointer(b)), root: sim.ObjID(unsafe.Pointer(hdr))})
					sim.Tracef("  task %d cycle %d: hands obj#%d over to whoever takes it", ti, cyc, sim.ObjID(unsafe.Pointer(b)))
					sim.HandoffGive(unsafe.Pointer(b), ti, cyc)
					return
				}
				if cy.putMode == 2 {
					t.Yield(sForget)
					ts.events = append(ts.events, poolEvent{step: t.Step, task: ti, kind: evForget, obj: sim.ObjID(unsafe.Pointer(hdr))})
					sim.Tracef("  task %d cycle %d: forget obj#%d", ti, cyc, sim.ObjID(unsafe.Pointer(hdr)))
					return
				}
				t.Yield(sPut)
				pb := b
				if cy.putMode == 1 {
					func() {
						defer func() { recover() }()
						pb = b.Slice(0, int(cy.putArg)%(b.Capacity()+1))
					}()
				}
				var pv any
				pbID, pbLen := sim.ObjID(unsafe.Pointer(pb)), pb.Len() // the buffer must not be touched after Put
				// The hold ends when Put is invoked, not when it returns: with
				// inner pre-emption a call spans several steps, and the pool may
				// legitimately hand the buffer on as soon as it has it.
				invStep := t.Step
				func() {
					defer func() { pv = recover() }()
					handleOf(cy).Put(pb)
				}()
				ops++
				sim.Mix(0xa000 | uint64(pbID)<<16)
				// Whatever header went into the pool, the task lets go of the one it got.
				ts.events = append(ts.events, poolEvent{step: invStep, task: ti, kind: evPut, obj: sim.ObjID(unsafe.Pointer(hdr)), rejected: pv != nil})
				if pb != hdr {
					ts.events = append(ts.events, poolEvent{step: invStep, task: ti, kind: evPut, obj: pbID, rejected: pv != nil})
				}
				sim.Tracef("  task %d cycle %d: Put obj#%d (len=%d) rejected=%v", ti, cyc, pbID, pbLen, pv != nil)
			}

			for cyc := range progs[ti] {
				cy := &progs[ti][cyc]
				var b *signal.Buffer[T]
				ok := false
				if cy.fromMail {
					t.Yield(sGet)
					if p, gt, gc := sim.HandoffTake(); p != nil {
						// A buffer another task obtained and stamped: it must
						// arrive exactly as that task left it.
						b = (*signal.Buffer[T])(p)
						ts.events = append(ts.events, poolEvent{step: t.Step, task: ti, kind: evTake, obj: sim.ObjID(p)})
						sim.Tracef("  task %d cycle %d: takes obj#%d handed over by task %d", ti, cyc, sim.ObjID(p), gt)
						handed++
						t.Yield(sVerify)
						if !verifyAs(b, cy, gt, gc, cyc) {
							return
						}
						ok = true
					}
				}
				fromPool := false
				if !ok {
					if b, ok = acquire(cy, cyc, 0); !ok {
						return
					}
					fromPool = true
				}
				hdr := b
				var b2 *signal.Buffer[T]
				if cy.second {
					if b2, ok = acquire(cy, cyc, 1); !ok {
						return
					}
					two++
				}
				var extras []*signal.Buffer[T]
				for j := 0; j < cy.extra; j++ {
					e, ok := acquire(cy, cyc, 2+j%14)
					if !ok {
						return
					}
					if !stamp(e, cy, cyc, 2+j%14) {
						return
					}
					extras = append(extras, e)
				}
				var hs hist
				// A buffer that came from the pool must go on behaving like a
				// freshly allocated one: the same operations on a fresh Alloc
				// (task-local) must leave the same shape and contents.
				var shadow *signal.Buffer[T]
				if fromPool && len(cy.uses) > 0 && as[cy.pool].Channels*as[cy.pool].Capacity <= 2048 {
					shadow = signal.Alloc[T](as[cy.pool])
				}
				for _, u := range cy.uses {
					t.Yield(sUse)
					var point func()
					if cy.inner {
						point = simrt.Point
					}
					panicked := h.applyUse(&b, u, b2, &hs, point, func(format string, args ...any) {
						sim.Tracef("  task %d cycle %d: use "+format, append([]any{ti, cyc}, args...)...)
					})
					ops++
					if shadow != nil {
						var shs hist
						spanicked := h.applyUse(&shadow, u, b2, &shs, nil, nil)
						same := panicked == spanicked && b.Len() == shadow.Len() && b.Cap() == shadow.Cap() &&
							b.Length() == shadow.Length() && b.Capacity() == shadow.Capacity()
						at := -1
						if same {
							x, y := snapshotFull(b), snapshotFull(shadow)
							if i, ok := sameSnap(x, y); !ok {
								same, at = false, i
							}
						}
						if !same {
							fail(violf("behaves-unlike-fresh",
								"task %d cycle %d: after %s the buffer it obtained (len=%d cap=%d, panicked=%v) differs from a freshly allocated buffer put through the same operations (len=%d cap=%d, panicked=%v; first differing full-capacity position %d)",
								ti, cyc, useNames[u.kind], b.Len(), b.Cap(), panicked, shadow.Len(), shadow.Cap(), spanicked, at))
							return
						}
					}
				}
				if !stamp(b, cy, cyc, 0) {
					return
				}
				if b2 != nil && !stamp(b2, cy, cyc, 1) {
					return
				}
				for k := 0; k < cy.hold; k++ {
					t.Yield(sHold)
				}
				t.Yield(sVerify)
				if !verify(b, cy, cyc, 0) {
					return
				}
				if b2 != nil && !verify(b2, cy, cyc, 1) {
					return
				}
				for j, e := range extras {
					if !verify(e, cy, cyc, 2+j%14) {
						return
					}
					cyE := *cy
					cyE.putMode = 0
					release(e, e, &cyE, cyc)
				}
				release(b, hdr, cy, cyc)
				if b2 != nil {
					cy2 := *cy
					if cy2.putMode == 3 {
						cy2.putMode = 0 // only the first buffer is ever handed over
					}
					release(b2, b2, &cy2, cyc)
				}
			}
		})
	}
	sim.Run(estSteps)
	if sim.LibPanicked {
		return nil // cut short without a verdict; nothing the abandoned tasks left behind may be read
	}

	// Post-run inspection (every task happens-before this point).
	for ti := range states {
		rc.ops += taskOps[ti]
		rc.probes[pTwoBuffersHeld] += taskTwo[ti]
		rc.probes[pHandedOver] += taskHanded[ti]
	}
	var first *Violation
	firstStep := 1 << 62
	for ti, ts := range states {
		if ts.viol != nil && ts.vstep < firstStep {
			first, firstStep = ts.viol, ts.vstep
		}
		if pv := roots[ti].PanicVal; pv != nil && ts.viol == nil && first == nil {
			first = violf("task-panic", "task %d panicked outside any recovered operation: %v", ti, pv)
		}
	}
	// Oracle 2: identity intervals over the merged history, ordered by the
	// scheduler's global step numbers. Steps are atomic, so this is the
	// linearizability check of the Get/Put history against the pool's
	// sequential specification "Get returns an object not currently handed out".
	var all []poolEvent
	for _, ts := range states {
		all = append(all, ts.events...)
	}
	sort.SliceStable(all, func(i, j int) bool { return all[i].step < all[j].step })
	holder := map[int]int{}  // obj -> task currently holding it
	lastPut := map[int]int{} // obj -> task that put it last
	putStep := map[int]int{} // obj -> step of that put
	holding := make([]int, len(states))
	inTransit := map[int]bool{} // handed over, not yet taken (or never taken: then held for ever)
	// A buffer is held as a lineage: the header Get returned and the views the
	// holder made of it. A hand-over passes a view on; whoever takes it holds
	// the giver's header too (same storage), and lets go of both when it puts
	// the view or a slice of it back - whichever header the pool then recycles.
	rootInTransit := map[int]int{} // giver's header -> number of its views in transit
	transitRoot := map[int]int{}   // view in transit -> giver's header
	parent := map[int]int{}        // taken view -> giver's header, while the taker holds it
	// letGo ends the task's hold on x and on every header x was derived from
	// through hand-overs; it returns the last one (the header a Get returned).
	letGo := func(x, task int) int {
		for {
			if t, ok := holder[x]; ok && t == task {
				delete(holder, x)
			}
			r, ok := parent[x]
			if !ok {
				return x
			}
			delete(parent, x)
			x = r
		}
	}
	recycles := 0
	putsSoFar, getsAfterPut := 0, 0
	for _, e := range all {
		switch e.kind {
		case evGet:
			if inTransit[e.obj] || rootInTransit[e.obj] > 0 {
				v := violf("held-twice", "step %d: Get handed obj#%d to task %d while it is being handed from one task to another (obtained and not yet put back)", e.step, e.obj, e.task)
				if e.step < firstStep {
					first, firstStep = v, e.step
				}
			}
			if other, held := holder[e.obj]; held {
				v := violf("held-twice", "step %d: Get handed obj#%d to task %d while task %d still holds it (obtained and not yet put back)", e.step, e.obj, e.task, other)
				if e.step < firstStep {
					first, firstStep = v, e.step
				}
			}
			holder[e.obj] = e.task
			if putsSoFar > 0 {
				getsAfterPut++
			}
			if lp, ok := lastPut[e.obj]; ok {
				recycles++
				if lp != e.task {
					rc.probes[pXTaskRecycle]++
				} else {
					rc.probes[pSameTaskRecycle]++
				}
				for _, gs := range sim.GCSteps {
					if gs >= putStep[e.obj] && gs < e.step {
						rc.probes[pGCBetweenPutGet]++
						break
					}
				}
				delete(lastPut, e.obj)
			}
			others := 0
			for tk, n := range holding {
				if tk != e.task && n > 0 {
					others++
				}
			}
			if others > 0 {
				rc.probes[pGetWhileOtherHolds]++
			}
			if others >= 2 {
				rc.probes[pTwoHoldersSameStep]++
			}
			holding[e.task]++
		case evPut:
			if t, ok := holder[e.obj]; ok && t == e.task {
				delete(holder, e.obj)
				holding[e.task]--
			}
			letGo(e.obj, e.task) // a view taken from a hand-over: the givers' headers go with it
			if !e.rejected {
				putsSoFar++
				lastPut[e.obj] = e.task
				putStep[e.obj] = e.step
			}
		case evTake:
			delete(inTransit, e.obj)
			if other, held := holder[e.obj]; held {
				v := violf("held-twice", "step %d: task %d took obj#%d from a hand-over while task %d still holds it", e.step, e.task, e.obj, other)
				if e.step < firstStep {
					first, firstStep = v, e.step
				}
			}
			holder[e.obj] = e.task
			holding[e.task]++
			if r, ok := transitRoot[e.obj]; ok {
				delete(transitRoot, e.obj)
				if rootInTransit[r]--; rootInTransit[r] <= 0 {
					delete(rootInTransit, r)
				}
				if other, held := holder[r]; held && other != e.task {
					v := violf("held-twice", "step %d: task %d took a view of obj#%d from a hand-over while task %d holds that buffer", e.step, e.task, r, other)
					if e.step < firstStep {
						first, firstStep = v, e.step
					}
				}
				holder[r] = e.task
				parent[e.obj] = r
			}
		case evGive:
			_, held := holder[e.obj]
			_, heldRoot := holder[e.root]
			letGo(e.obj, e.task)
			root := letGo(e.root, e.task) // through earlier hand-overs, to the header some Get returned
			if root != e.obj {
				rootInTransit[root]++
				transitRoot[e.obj] = root
			}
			if held || heldRoot {
				holding[e.task]--
			}
			inTransit[e.obj] = true
		case evForget:
			// never returned: the hold lasts for ever; the pool must not hand it out again
		}
	}
	rc.nontrivial = g >= 2 && getsAfterPut > 0
	return first
}
