package main

// Scheduler sites: what a task is about to do when it yields.
const (
	sGet = iota
	sFresh
	sUse
	sStamp
	sHold
	sVerify
	sPut
	sForget
	sRdMeta
	sRdSample
	sRdSlice
	sRdChannel
	sRdRead
	sRdStriped
	sRdConv
	sRdAppendSrc
	sWrSlice
	sWrSet
	sWrWrite
	sWrStriped
	sWrChannel
	sWrConv
	sWrRead
	sInner
	numSites
)

var siteNames = [numSites]string{"get", "freshcheck", "use", "stamp", "hold", "verify", "put", "forget",
	"rd.meta", "rd.sample", "rd.slice", "rd.channel", "rd.read", "rd.striped", "rd.conv", "rd.appendsrc",
	"slice-own-window", "wr.set", "wr.write", "wr.striped", "wr.channel", "wr.conv", "wr.read", "inner"}

// Probes: "this rare condition was hit" counters. A probe stuck at zero on
// the unchanged tree means the workload must change.
const (
	// C10
	pReuse = iota
	pReuseAfterAppendSample
	pReuseAfterAppendBuf
	pReuseAfterSlicePut
	pReuseDirtBeyondLen
	pReuseLenPositive
	pGetWhile3Out
	pGetAfterGCEmptied
	pRejectedPut
	pReuseViaCopy
	pReuseViaPointer
	pGrownAppend
	// C11
	pXTaskRecycle
	pSameTaskRecycle
	pGetWhileOtherHolds
	pGCBetweenPutGet
	pTwoHoldersSameStep
	pByValueCopies
	pTwoBuffersHeld
	pHandedOver
	// C19
	pSameEntryAdjacent
	pReaderWriterAdjacent
	pSubWordNeighbours
	pSharedIsWindow
	pSeqPanicMatched
	numProbes
)

var probeNames = [numProbes]string{
	"reuse", "reuse_after_appendsample", "reuse_after_append_buffer", "reuse_after_slice_put",
	"reuse_with_dirt_beyond_length", "reuse_with_length_positive", "get_while_3_outstanding",
	"get_after_gc_emptied_pool", "rejected_put", "reuse_via_allocator_copy", "reuse_via_allocator_pointer",
	"append_that_grew",
	"recycled_across_tasks", "recycled_within_task", "get_while_other_task_holds", "gc_between_put_and_get",
	"two_tasks_holding_at_same_step", "by_value_allocator_copies", "task_holding_two_buffers", "buffer_handed_to_another_task",
	"same_entry_point_adjacent_steps", "reader_writer_adjacent_neighbouring_frames",
	"writer_ranges_share_8byte_word", "shared_buffer_is_window", "panic_matched_sequential",
}

var probeProp = [numProbes]string{
	"C10", "C10", "C10", "C10", "C10", "C10", "C10", "C10", "C10", "C10", "C10", "C10",
	"C11", "C11", "C11", "C11", "C11", "C11", "C11", "C11",
	"C19", "C19", "C19", "C19", "C19",
}
