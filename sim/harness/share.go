package main

import (
	"unsafe"

	"pipelined.dev/signal"
	"verif.local/simrt"
)

// C19 program: drawn completely before any task starts, so that the same
// program can be executed under two schedules.

const (
	roleReader = iota
	roleWriter
)

// reader operation kinds
const (
	rMeta = iota
	rSample
	rSlice
	rChannel
	rRead
	rReadOther
	rStriped
	rConv
	rAppendSrc
	rStripedOther
	rPure
	numReaderOps
)

var readerSites = [numReaderOps]int{sRdMeta, sRdSample, sRdSlice, sRdChannel, sRdRead, sRdRead, sRdStriped, sRdConv, sRdAppendSrc, sRdStriped, sRdMeta}
var readerOpNames = [numReaderOps]string{"meta", "Sample", "Slice+read", "Channel view", "Read[T,T]", "Read[T,other type]", "ReadStriped", "conversion-from", "private.Append(shared)", "ReadStriped[T,other type]", "stateless helpers"}

// writer operation kinds
const (
	wSet = iota
	wWrite
	wStriped
	wChannel
	wConv
	wReadBack
	wMeta
	wConvShared
	wAppendSrcOwn
	wWriteOther
	wStripedOther
	wPure
	numWriterOps
)

var writerSites = [numWriterOps]int{sWrSet, sWrWrite, sWrStriped, sWrChannel, sWrConv, sWrRead, sRdMeta, sWrConv, sRdAppendSrc, sWrWrite, sWrStriped, sRdMeta}
var writerOpNames = [numWriterOps]string{"SetSample", "Write", "WriteStriped", "Channel(c).SetSample", "conversion-into", "read back own range", "meta of parent", "conversion from a read-only window of the shared buffer into own window", "private.Append(own window)", "Write[other type,T]", "WriteStriped[other type,T]", "stateless helpers"}

type shareOp struct {
	kind    int
	a, b, c uint64
}

type shareTask struct {
	role           int
	start, end     int  // frame range inside the shared buffer: a writer's own range, or the reader's read-only window
	whole          bool // reader works on the shared parent itself (readers-only scenario)
	roStart, roEnd int  // writers in mixed runs: a read-only range of the shared buffer they may read
	ops            []shareOp
}

type shareProgram struct {
	c, frames, extraCap int
	winStart, bigFrames int // shared = big.Slice(winStart, winStart+frames) when window
	window              bool
	scenario            int // 0 readers only, 1 writers only, 2 mixed
	fillSeed            uint64
	fillMode            int       // 0 arbitrary bit patterns, 1 ordinary values, 2 all zero, 3 one constant, 4 runs of equal samples
	nest                bool      // views are obtained by slicing twice
	build               int       // how the buffer came to be (see buildShared)
	fillPart            int       // how much of it has ever been stored to
	preOps              []shareOp // operations applied to the whole shared buffer before the tasks start (the buffer has a history)
	preRole             []int
	concFirst           bool // the concurrent execution comes before the sequential reference (state a library initialises on first use)
	raw                 bool // the tasks share the built header itself, not a Slice of it
	tasks               []shareTask
}

// shareResult is what one execution of the program produced.
type shareResult struct {
	digests  [][]uint64 // per task, digest after each op
	final    []uint64   // bit patterns of the whole backing buffer afterwards
	panicked []int      // per task: number of ops that panicked
	rogue    []any      // per task: panic outside any op
}

func drawShareProgram(prog *simrt.Stream, b Bounds) *shareProgram {
	p := &shareProgram{}
	switch prog.Draw(4) {
	case 0:
		p.c = 2
	case 1:
		p.c = 1
	case 2:
		p.c = 1 + prog.Draw(8)
	default:
		p.c = 1 + prog.Draw(4*b.MaxC) // wide shapes: the quantifier does not bound the channel count
	}
	if prog.Draw(32) == 31 {
		p.c = 60 + prog.Draw(80)
	}
	maxFrames := 64
	if b.MaxK > 64 {
		maxFrames = 512
	}
	switch prog.Draw(3) {
	case 0:
		p.frames = 8
	case 1:
		p.frames = 1 + prog.Draw(16)
	default:
		p.frames = 1 + prog.Draw(maxFrames)
	}
	hugeIn := b.HugeOneIn / 4 // C19 has fewer runs than the pool checks: huge shapes more often
	huge := prog.Draw(hugeIn) == hugeIn-1
	if huge {
		// rare: a shared buffer of 64 Ki .. 256 Ki samples (size-dependent paths
		// of a modified library), few tasks, few operations
		p.c = 1 + prog.Draw(4)
		p.frames = []int{65536, 65537, 1 << 17, 1 << 18}[prog.Draw(4)] / p.c
		p.frames += prog.Draw(3)
	}
	medium := false
	if !huge && prog.Draw(b.MediumOneIn/2) == b.MediumOneIn/2-1 {
		// rare: between the ordinary and the huge sizes, around powers of two
		medium = true
		p.c = []int{1, 2, 1 + prog.Draw(8)}[prog.Draw(3)]
		p.frames = (mediumTotal(prog) + p.c - 1) / p.c
	}
	if prog.Draw(2) == 1 {
		p.extraCap = 1 + prog.Draw(8)
	}
	if prog.Draw(3) == 2 {
		p.window = true
		p.winStart = prog.Draw(5)
		p.bigFrames = p.winStart + p.frames + p.extraCap + prog.Draw(4)
	} else {
		p.bigFrames = p.frames + p.extraCap
	}
	p.scenario = prog.Draw(3)
	p.fillSeed = uint64(prog.Draw(1 << 30))
	p.fillMode = prog.Draw(5)
	p.nest = prog.Draw(3) == 2
	p.build = prog.Draw(5)
	p.fillPart = prog.Draw(3) // 0 everything, 1 the first half, 2 nothing: memory that was never stored to since it was allocated
	p.concFirst = prog.Draw(2) == 1
	for n := prog.Draw(4); n > 0; n-- {
		// the buffer was used before it came to be shared: header state a
		// library derives lazily (scratch, memos) then already exists
		role := prog.Draw(2)
		op := shareOp{a: uint64(prog.Draw(1 << 16)), b: uint64(prog.Draw(1 << 16)), c: uint64(prog.Draw(1 << 16))}
		if role == roleReader {
			op.kind = prog.Draw(numReaderOps)
		} else {
			op.kind = prog.Draw(numWriterOps)
		}
		p.preOps = append(p.preOps, op)
		p.preRole = append(p.preRole, role)
	}
	p.raw = !p.window && prog.Draw(2) == 1
	// Tasks and their operations are nested units, each preceded by the draw
	// that decides whether it exists (0 = stop). Frame ranges are handed out
	// consecutively: a writer owns its segment; in mixed runs a reader is
	// confined to a segment no writer owns (its own, or an earlier read-only one).
	rMask, wMask := drawMask(prog, numReaderOps), drawMask(prog, numWriterOps)
	contT := []int{2, 3, 6, 16}[prog.Draw(4)]
	contO := []int{2, 4, 12}[prog.Draw(3)]
	maxTasks, maxOps := 16, 12
	if !huge && !medium && prog.Draw(6) == 5 {
		// "deep" runs: two to four tasks with long operation sequences of few
		// kinds - state that one operation leaves behind for a later one of
		// the same task (marks, memos, scratch) after another task interfered
		contT, contO, maxTasks, maxOps = 2, 24, 4, 48
		if rMask == 1<<numReaderOps-1 {
			rMask = drawMask(prog, numReaderOps)
		}
		if wMask == 1<<numWriterOps-1 {
			wMask = drawMask(prog, numWriterOps)
		}
	}
	if huge {
		contT, contO, maxTasks, maxOps = 2, 2, 4, 3
	}
	if medium && p.c*p.frames > 4096 {
		contT, contO, maxTasks, maxOps = 3, 2, 6, 4
	}
	at := 0
	var roSegs [][2]int
	for ti := 0; ti < maxTasks; ti++ {
		prog.Begin()
		if ti >= 2 && !prog.More(contT) {
			prog.End()
			break
		}
		t := shareTask{}
		switch p.scenario {
		case 0:
			t.role = roleReader
		case 1:
			t.role = roleWriter
		default:
			switch ti {
			case 0:
				t.role = roleReader
			case 1:
				t.role = roleWriter
			default:
				t.role = prog.Draw(2)
			}
		}
		if p.scenario == 0 {
			t.whole = prog.Draw(3) != 2
			t.start, t.end = 0, p.frames
			if !t.whole {
				x, y := prog.Draw(p.frames+1), prog.Draw(p.frames+1)
				if x > y {
					x, y = y, x
				}
				t.start, t.end = x, y
			}
		} else if t.role == roleReader && len(roSegs) > 0 && prog.Draw(2) == 1 {
			seg := roSegs[prog.Draw(len(roSegs))] // readers may share a read-only segment
			t.start, t.end = seg[0], seg[1]
		} else {
			w := prog.Draw(p.frames - at + 1)
			if prog.Draw(2) == 1 {
				w %= 4 // narrow ranges: neighbours inside one machine word
			}
			t.start, t.end = at, at+w
			at += w
			if t.role == roleReader {
				roSegs = append(roSegs, [2]int{t.start, t.end})
			} else if len(roSegs) > 0 {
				seg := roSegs[prog.Draw(len(roSegs))]
				t.roStart, t.roEnd = seg[0], seg[1]
			}
		}
		for k := 0; k < maxOps; k++ {
			prog.Begin()
			if k >= 1 && !prog.More(contO) {
				prog.End()
				break
			}
			op := shareOp{}
			if t.role == roleReader {
				op.kind = maskedKind(prog.Draw(numReaderOps), numReaderOps, rMask)
				if (huge || medium) && prog.Draw(2) == 1 {
					op.kind = []int{rRead, rReadOther, rConv, rStriped}[prog.Draw(4)] // whole-buffer operations
				}
			} else {
				op.kind = maskedKind(prog.Draw(numWriterOps), numWriterOps, wMask)
				if (huge || medium) && prog.Draw(2) == 1 {
					op.kind = []int{wWrite, wWriteOther, wConv, wStriped}[prog.Draw(4)]
				}
			}
			op.a, op.b, op.c = uint64(prog.Draw(1<<16)), uint64(prog.Draw(1<<16)), uint64(prog.Draw(1<<16))
			t.ops = append(t.ops, op)
			prog.End()
		}
		p.tasks = append(p.tasks, t)
		prog.End()
	}
	return p
}

// build allocates and fills the shared buffer; everything here happens
// before the tasks are created.
func buildShared[T signal.SignalTypes](p *shareProgram) (big, shared *signal.Buffer[T]) {
	val := func(i int) T {
		switch p.fillMode {
		case 0:
			return arb[T](p.fillSeed + uint64(i)*7)
		case 1:
			return nice[T](p.fillSeed + uint64(i)*977)
		case 2:
			var z T
			return z // all zero
		case 3:
			return nice[T](p.fillSeed)
		}
		return arb[T](p.fillSeed + uint64(i/5))
	}
	// How the buffer came to be matters to a library that keeps derived state
	// in the header: allocated at its length, grown sample by sample, taken
	// from a pool after a put/get cycle, or grown by Append. With raw, the
	// tasks share that very header instead of a Slice of it.
	length := p.bigFrames
	if p.raw {
		length = p.frames // spare capacity beyond the length stays zero
	}
	n := p.c * length
	switch p.fillPart {
	case 1:
		n /= 2
	case 2:
		n = 0
	}
	if p.build != 0 && p.build != 4 {
		n = p.c * length // these ways of building define the length by what is appended
	}
	switch p.build {
	case 1: // grown sample by sample
		big = signal.Alloc[T](signal.Allocator{Channels: p.c, Length: 0, Capacity: p.bigFrames})
		for i := 0; i < n; i++ {
			big.AppendSample(val(i))
		}
	case 2: // from a pool, after a put/get cycle
		pa := signal.PoolAlloc[T](signal.Allocator{Channels: p.c, Length: 0, Capacity: p.bigFrames})
		b := pa.Get()
		b.AppendSample(val(0))
		pa.Put(b)
		big = pa.Get()
		for i := 0; i < n; i++ {
			big.AppendSample(val(i))
		}
	case 3: // grown by Append inside its capacity
		big = signal.Alloc[T](signal.Allocator{Channels: p.c, Length: 0, Capacity: p.bigFrames})
		src := signal.Alloc[T](signal.Allocator{Channels: p.c, Length: length, Capacity: length})
		for i := 0; i < n; i++ {
			src.SetSample(i, val(i))
		}
		big.Append(src)
	default:
		big = signal.Alloc[T](signal.Allocator{Channels: p.c, Length: length, Capacity: p.bigFrames})
		for i := 0; i < n; i++ {
			big.SetSample(i, val(i))
		}
	}
	switch {
	case p.raw:
		shared = big
	case p.window:
		shared = big.Slice(p.winStart, p.winStart+p.frames)
	default:
		shared = big.Slice(0, p.frames)
	}
	return big, shared
}

func foldBuffer[T signal.SignalTypes](d *uint64, b *signal.Buffer[T]) {
	mix64(d, uint64(b.Len()))
	mix64(d, uint64(b.Cap()))
	mix64(d, uint64(b.Length()))
	mix64(d, uint64(b.Capacity()))
	mix64(d, uint64(b.Channels()))
	mix64(d, uint64(b.BitDepth()))
	for i := 0; i < b.Len(); i++ {
		mix64(d, bitsOf(b.Sample(i)))
	}
}

// readerOp executes one read-only entry point on view (the shared parent, or
// the reader's own read-only window of it) and folds everything observed.
func (h *H[T]) readerOp(d *uint64, parent, view *signal.Buffer[T], op shareOp) {
	c := view.Channels()
	switch op.kind {
	case rMeta:
		for _, b := range []*signal.Buffer[T]{parent, view} {
			mix64(d, uint64(b.Len()))
			mix64(d, uint64(b.Cap()))
			mix64(d, uint64(b.Length()))
			mix64(d, uint64(b.Capacity()))
			mix64(d, uint64(b.Channels()))
			mix64(d, uint64(b.BitDepth()))
			mix64(d, uint64(b.BufferIndex(int(op.a)%c, int(op.b)%64)))
		}
	case rSample:
		if view.Len() == 0 {
			return
		}
		for k := uint64(0); k < 1+op.c%8; k++ {
			mix64(d, bitsOf(view.Sample(int(op.a+k*op.b)%view.Len())))
		}
	case rSlice:
		x, y := int(op.a)%(view.Length()+1), int(op.b)%(view.Length()+1)
		if x > y {
			x, y = y, x
		}
		foldBuffer(d, view.Slice(x, y))
	case rChannel:
		ch := view.Channel(int(op.a) % c)
		mix64(d, uint64(ch.Length()))
		mix64(d, uint64(ch.Capacity()))
		mix64(d, uint64(ch.Channels()))
		if view.Length() > 0 {
			i := int(op.b) % view.Length()
			mix64(d, uint64(ch.BufferIndex(int(op.a)%c, i)))
			mix64(d, bitsOf(ch.Sample(i)))
		}
	case rRead:
		dst := make([]T, sizeArg(op, view.Len()))
		mix64(d, uint64(signal.Read(view, dst)))
		for _, v := range dst {
			mix64(d, bitsOf(v))
		}
	case rReadOther:
		switch op.c / 2 % 6 {
		case 0:
			readInto[T, float64](d, view, op)
		case 1:
			readInto[T, int16](d, view, op)
		case 2:
			readInto[T, uint16](d, view, op)
		case 3:
			readInto[T, int32](d, view, op)
		case 4:
			readInto[T, float32](d, view, op)
		default:
			readInto[T, uint8](d, view, op)
		}
	case rStriped:
		dst := make([][]T, c)
		for chn := range dst {
			n := int(op.a+op.b*uint64(chn)) % (view.Length() + 3)
			if n == view.Length()+2 {
				continue
			}
			dst[chn] = make([]T, n)
		}
		mix64(d, uint64(signal.ReadStriped(view, dst)))
		for _, s := range dst {
			for _, v := range s {
				mix64(d, bitsOf(v))
			}
		}
	case rConv:
		cv := h.convSrc[int(op.a)%len(h.convSrc)]
		cv.f(view, int(op.b)%(view.Length()+2), d)
	case rStripedOther:
		switch op.c % 3 {
		case 0:
			readStripedInto[T, float64](d, view, op)
		case 1:
			readStripedInto[T, int16](d, view, op)
		default:
			readStripedInto[T, uint32](d, view, op)
		}
	case rPure:
		pureHelpers(d, op, view.Length(), c)
	case rAppendSrc:
		pl := int(op.a) % 3
		priv := signal.Alloc[T](signal.Allocator{Channels: c, Length: pl, Capacity: pl + int(op.b)%(view.Length()+3)})
		priv.Append(view)
		foldBuffer(d, priv)
	}
}

// writerOp executes one operation confined to own (the writer's frame range).
func (h *H[T]) writerOp(d *uint64, parent, own, ro *signal.Buffer[T], op shareOp) {
	c := own.Channels()
	switch op.kind {
	case wSet:
		if own.Len() == 0 {
			return
		}
		own.SetSample(int(op.a)%own.Len(), pick[T](op.b))
	case wWrite:
		vals := make([]T, sizeArg(op, own.Len()))
		for i := range vals {
			vals[i] = pick[T](op.b + uint64(i))
		}
		mix64(d, uint64(signal.Write(vals, own)))
	case wStriped:
		src := make([][]T, c)
		for chn := range src {
			n := int(op.a+op.b*uint64(chn)) % (own.Length() + 3)
			if n == own.Length()+2 {
				continue
			}
			src[chn] = make([]T, n)
			for i := range src[chn] {
				src[chn][i] = pick[T](op.c + uint64(chn*131+i))
			}
		}
		mix64(d, uint64(signal.WriteStriped(src, own)))
	case wChannel:
		if own.Length() == 0 {
			return
		}
		own.Channel(int(op.a)%c).SetSample(int(op.b)%own.Length(), pick[T](op.c))
	case wConv:
		cv := h.convDst[int(op.a)%len(h.convDst)]
		mix64(d, uint64(cv.f(own, int(op.b)%(own.Length()+2), op.c)))
	case wReadBack:
		for i := 0; i < own.Len(); i++ {
			mix64(d, bitsOf(own.Sample(i)))
		}
		mix64(d, uint64(own.Length()))
	case wConvShared:
		// source: a range of the shared buffer nobody writes; destination: own range
		if ro != nil {
			mix64(d, uint64(h.convSame(ro, own)))
		}
	case wAppendSrcOwn:
		priv := signal.Alloc[T](signal.Allocator{Channels: c, Length: 0, Capacity: int(op.a) % (own.Length() + 2)})
		priv.Append(own)
		foldBuffer(d, priv)
	case wWriteOther:
		switch op.c / 2 % 4 {
		case 0:
			writeFrom[float64, T](d, own, op)
		case 1:
			writeFrom[int16, T](d, own, op)
		case 2:
			writeFrom[uint8, T](d, own, op)
		default:
			writeFrom[int32, T](d, own, op)
		}
	case wStripedOther:
		if op.c%2 == 0 {
			writeStripedFrom[float32, T](d, own, op)
		} else {
			writeStripedFrom[int8, T](d, own, op)
		}
	case wPure:
		pureHelpers(d, op, own.Length(), c)
	case wMeta:
		// header reads of the shared parent while others work
		mix64(d, uint64(parent.Len()))
		mix64(d, uint64(parent.Length()))
		mix64(d, uint64(parent.Capacity()))
		mix64(d, uint64(parent.Channels()))
	}
}

// execShare runs the program once under sim's strategy.
func (h *H[T]) execShare(p *shareProgram, sim *simrt.Sim, label string) *shareResult {
	simrt.Begin(sim)
	var big, shared *signal.Buffer[T]
	sim.Setup(func() { // (every library call is made by a simulated task)
		big, shared = buildShared[T](p)
		var d uint64
		for i, op := range p.preOps {
			func() {
				defer func() { recover() }()
				if p.preRole[i] == roleReader {
					h.readerOp(&d, shared, shared, op)
				} else {
					h.writerOp(&d, shared, shared, nil, op)
				}
			}()
		}
	})
	n := len(p.tasks)
	res := &shareResult{digests: make([][]uint64, n), panicked: make([]int, n), rogue: make([]any, n)}
	est := 0
	var roots []*simrt.Task
	for ti := range p.tasks {
		ti := ti
		pt := &p.tasks[ti]
		est += len(pt.ops) + 2
		name := "reader"
		if pt.role == roleWriter {
			name = "writer"
		}
		roots = append(roots, sim.Go(name, func(t *simrt.Task) {
			var d uint64 = 14695981039346656037
			digs := make([]uint64, 0, len(pt.ops))
			npanic := 0
			defer func() { res.digests[ti], res.panicked[ti] = digs, npanic }()
			// Every task obtains its own view itself: a concurrent read of the
			// shared parent's header.
			view := shared
			var ro *signal.Buffer[T]
			if !pt.whole {
				t.Yield(sWrSlice)
				if p.nest && pt.start > 0 {
					// the same window, reached through an intermediate (wider) view:
					// creating a view reads headers only
					view = shared.Slice(pt.start-1, p.frames).Slice(1, 1+pt.end-pt.start)
				} else {
					view = shared.Slice(pt.start, pt.end)
				}
				if pt.role == roleWriter && pt.roEnd > pt.roStart {
					ro = shared.Slice(pt.roStart, pt.roEnd)
				}
			}
			for k := range pt.ops {
				op := pt.ops[k]
				if pt.role == roleReader {
					t.Yield(readerSites[op.kind])
				} else {
					t.Yield(writerSites[op.kind])
				}
				func() {
					defer func() {
						if r := recover(); r != nil {
							// A panic is part of the observed result: it must
							// occur in the sequential execution too.
							mix64(&d, 0xdeadbeef)
							npanic++
							sim.Tracef("  %s task %d op %d PANIC(%v)", label, ti, k, r)
						}
					}()
					if pt.role == roleReader {
						h.readerOp(&d, shared, view, op)
					} else {
						h.writerOp(&d, shared, view, ro, op)
					}
				}()
				digs = append(digs, d)
				if pt.role == roleReader {
					sim.Tracef("  %s task %d op %d: reader %s on frames [%d,%d) -> digest %#x", label, ti, k, readerOpNames[op.kind], pt.start, pt.end, d)
				} else {
					sim.Tracef("  %s task %d op %d: writer %s on frames [%d,%d) -> digest %#x", label, ti, k, writerOpNames[op.kind], pt.start, pt.end, d)
				}
			}
		}))
	}
	simrt.Begin(sim)
	sim.Run(est)
	if sim.LibPanicked {
		return res
	}
	for ti, t := range roots { // (the library may have started tasks of its own)
		res.rogue[ti] = t.PanicVal
	}
	// (the final inspection calls the library too: it runs as a task as well)
	if !sim.RaceAborted && !sim.LibPanicked && sim.Deadlocked == "" {
		sim.Setup(func() { res.final = snapshotFull(big) })
	}
	return res
}

// C19: R readers and W writers over one shared buffer; the same program under
// the sequential reference schedule and under the drawn schedule.
func (h *H[T]) C19(rc *runCtx) *Violation {
	prog, sim := rc.prog, rc.sim
	p := drawShareProgram(prog, rc.b)
	sim.Strategy = 1 + sim.Sched.Draw(simrt.NumStrategies-1)
	sim.StickyP = []int{2, 4, 8, 16}[sim.Sched.Draw(4)]
	drawInner(sim)
	drawClock(sim)
	rc.tally("inner_gap", spA("%d", sim.InnerG))
	nr, nw := 0, 0
	for _, t := range p.tasks {
		if t.role == roleReader {
			nr++
		} else {
			nw++
		}
	}
	scen := []string{"readers-only", "writers-only", "mixed"}[p.scenario]
	rc.tally("scenario", scen)
	rc.tally("strategy", simrt.StrategyNames[sim.Strategy])
	rc.tally("tasks", spA("%d", len(p.tasks)))
	switch n := p.c * p.frames; {
	case n >= 65536:
		rc.tally("size_class", "huge")
	case n > 1024:
		rc.tally("size_class", "medium")
	default:
		rc.tally("size_class", "ordinary")
	}
	rc.cfg = spA("C=%d frames=%d extracap=%d window=%v(start %d of %d) scenario=%s R=%d W=%d ops(task0)=%d strategy=%s stickyP=%d innerG=%d",
		p.c, p.frames, p.extraCap, p.window, p.winStart, p.bigFrames, scen, nr, nw, len(p.tasks[0].ops), simrt.StrategyNames[sim.Strategy], sim.StickyP, sim.InnerG)
	sim.Tracef("config: T=%s %s", h.name, rc.cfg)
	for ti, t := range p.tasks {
		role := "reader"
		if t.role == roleWriter {
			role = "writer"
		}
		sim.Tracef("  task %d: %s frames [%d,%d) whole=%v", ti, role, t.start, t.end, t.whole)
	}

	// Reference: the same real code, run task after task.
	seqSim := simrt.NewSim(simrt.NewReplayStream(nil))
	seqSim.Strategy = simrt.StratSequential
	seqSim.MaxSteps = sim.MaxSteps
	seqSim.SiteNames = sim.SiteNames
	seqSim.Tracing = sim.Tracing
	var seq, conc *shareResult
	if p.concFirst {
		// the concurrent execution first: whatever the library initialises on
		// first use is then initialised under concurrency
		conc = h.execShare(p, sim, "conc")
		if sim.RaceAborted || sim.LibPanicked {
			return nil // reported as a data race by the worker
		}
		seqSim.Adopt(sim)
		seq = h.execShare(p, seqSim, "seq")
		if seqSim.RaceAborted || seqSim.LibPanicked {
			return nil
		}
		sim.Adopt(seqSim) // so that the worker sees the goroutines the library left behind
		if sim.Tracing {
			rc.extraTrace = append([]string{"--- (the reference execution, task after task, ran AFTER the execution below) ---"}, seqSim.RenderTrace()...)
			rc.extraTrace = append(rc.extraTrace, "--- the same program under the drawn schedule (executed first) ---")
		}
	} else {
		seq = h.execShare(p, seqSim, "seq")
		if seqSim.RaceAborted || seqSim.LibPanicked {
			// the reference execution already produced a data race report (the
			// race oracle does not depend on the schedule): nothing more to learn
			return nil
		}
		if sim.Tracing {
			rc.extraTrace = append([]string{"--- reference: the same program, task after task ---"}, seqSim.RenderTrace()...)
			rc.extraTrace = append(rc.extraTrace, "--- the same program under the drawn schedule ---")
		}
		sim.Adopt(seqSim) // goroutines the library started during the reference execution live on
		conc = h.execShare(p, sim, "conc")
		if sim.RaceAborted || sim.LibPanicked {
			return nil // reported as a data race by the worker
		}
	}

	for _, t := range p.tasks {
		rc.ops += 2 * len(t.ops)
	}
	rc.nontrivial = len(p.tasks) >= 2 && sim.Counters[simrt.CtSwitches] > 0
	if p.window {
		rc.probes[pSharedIsWindow]++
	}
	var sz T
	esz := int(unsafe.Sizeof(sz))
	if esz < 8 && len(p.tasks) >= 2 {
		for _, t := range p.tasks {
			if t.role == roleWriter && t.end > t.start && ((p.winStart+t.start)*p.c*esz)%8 != 0 {
				rc.probes[pSubWordNeighbours]++
				break
			}
		}
	}
	for i := 0; i < numSites; i++ {
		if sim.SwitchPairs[i][i] {
			rc.probes[pSameEntryAdjacent]++
			break
		}
	}
	if p.scenario == 2 {
	outer:
		for i := sRdMeta; i <= sRdAppendSrc; i++ {
			for j := sWrSlice; j <= sWrRead; j++ {
				if sim.SwitchPairs[i][j] || sim.SwitchPairs[j][i] {
					rc.probes[pReaderWriterAdjacent]++
					break outer
				}
			}
		}
	}
	for ti := range p.tasks {
		if seq.panicked[ti] > 0 {
			rc.probes[pSeqPanicMatched]++
			break
		}
	}

	// Oracle 3 / 2: same panics, same per-task results, same final contents.
	for ti := range p.tasks {
		if conc.rogue[ti] != nil && seq.rogue[ti] == nil {
			return violf("task-panic", "task %d panicked outside any operation in the concurrent execution only: %v", ti, conc.rogue[ti])
		}
		a, b := seq.digests[ti], conc.digests[ti]
		if len(a) != len(b) {
			return violf("differs-from-sequential", "task %d completed %d operations sequentially but %d concurrently", ti, len(a), len(b))
		}
		for k := range a {
			if a[k] != b[k] {
				pt := p.tasks[ti]
				name := ""
				if pt.role == roleReader {
					name = "reader " + readerOpNames[pt.ops[k].kind]
				} else {
					name = "writer " + writerOpNames[pt.ops[k].kind]
				}
				return violf("differs-from-sequential",
					"task %d operation %d (%s on frames [%d,%d)) observed digest %#x in the concurrent execution, %#x in the sequential execution of the same program",
					ti, k, name, pt.start, pt.end, b[k], a[k])
			}
		}
	}
	if at, ok := sameSnap(seq.final, conc.final); !ok {
		if at < 0 {
			return violf("differs-from-sequential",
				"the full-capacity view of the shared storage (Slice(0, Capacity) of the backing buffer, taken after all tasks have ended) has %d samples after the concurrent execution and %d after the sequential one (0: taking it panicked)",
				len(conc.final), len(seq.final))
		}
		return violf("differs-from-sequential",
			"final contents of the shared storage differ from the sequential execution at interleaved position %d of the backing buffer (%d channels; shared window starts at frame %d)",
			at, p.c, p.winStart)
	}
	return nil
}

// pick mixes arbitrary bit patterns and ordinary values.
func pick[T signal.SignalTypes](k uint64) T {
	if k%2 == 0 {
		return nice[T](k / 2)
	}
	return arb[T](k / 2)
}

// sizeArg picks the length of a caller's slice for a buffer of n samples:
// half of the time exactly n (the ordinary use), otherwise anything from 0 to
// n+2 (shorter, and longer than the buffer) — also for buffers far larger
// than one 16-bit draw.
func sizeArg(op shareOp, n int) int {
	if op.c%2 == 0 {
		return n
	}
	return int((op.a<<16 ^ op.b<<3 ^ op.c) % uint64(n+3))
}

func readInto[T, D signal.SignalTypes](d *uint64, view *signal.Buffer[T], op shareOp) {
	dst := make([]D, sizeArg(op, view.Len()))
	mix64(d, uint64(signal.Read(view, dst)))
	for _, v := range dst {
		mix64(d, bitsOf(v))
	}
}

func readStripedInto[T, D signal.SignalTypes](d *uint64, view *signal.Buffer[T], op shareOp) {
	c := view.Channels()
	dst := make([][]D, c)
	for chn := range dst {
		n := int(op.a+op.b*uint64(chn)) % (view.Length() + 3)
		if n == view.Length()+2 {
			continue
		}
		dst[chn] = make([]D, n)
	}
	mix64(d, uint64(signal.ReadStriped(view, dst)))
	for _, s := range dst {
		for _, v := range s {
			mix64(d, bitsOf(v))
		}
	}
}

func writeFrom[S, T signal.SignalTypes](d *uint64, own *signal.Buffer[T], op shareOp) {
	vals := make([]S, sizeArg(op, own.Len()))
	for i := range vals {
		vals[i] = nice[S](op.b + uint64(i)*37)
	}
	mix64(d, uint64(signal.Write(vals, own)))
}

func writeStripedFrom[S, T signal.SignalTypes](d *uint64, own *signal.Buffer[T], op shareOp) {
	c := own.Channels()
	src := make([][]S, c)
	for chn := range src {
		n := int(op.a+op.b*uint64(chn)) % (own.Length() + 3)
		if n == own.Length()+2 {
			continue
		}
		src[chn] = make([]S, n)
		for i := range src[chn] {
			src[chn][i] = nice[S](op.c + uint64(chn*131+i))
		}
	}
	mix64(d, uint64(signal.WriteStriped(src, own)))
}

// pureHelpers calls the package's stateless helpers (bit-depth arithmetic,
// scale, channel length, frequency conversions) as readers and writers of a
// real program would around their buffer calls: any state hidden in them is
// shared between all goroutines.
func pureHelpers(d *uint64, op shareOp, frames, channels int) {
	bd := signal.BitDepth(1 + op.a%64)
	mix64(d, uint64(bd.MaxSignedValue()))
	mix64(d, bd.MaxUnsignedValue())
	mix64(d, uint64(bd.MinSignedValue()))
	mix64(d, uint64(bd.SignedValue(int64(op.b)-30000)))
	mix64(d, bd.UnsignedValue(op.c*977))
	mix64(d, uint64(signal.Scale[int64](signal.BitDepth(8+op.a%50), signal.BitDepth(8))))
	mix64(d, uint64(signal.ChannelLength(frames*channels+int(op.b%3), channels)))
	f := signal.Frequency(8000 + op.c%40000)
	mix64(d, uint64(f.Duration(frames+int(op.a%7))))
	mix64(d, uint64(f.Events(f.Duration(frames))))
}
