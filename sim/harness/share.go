package main

func (h *H[T]) C19(rc *runCtx) *Violation { return nil }
