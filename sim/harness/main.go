// Command worker executes simulated runs for one property over a range of run
// indices (or replays one tape) and streams one JSON line per run.
// It is built by the driver inside a scratch directory against a rewritten
// copy of /repo's current working tree.
package main

import (
	"bufio"
	"bytes"
	"encoding/json"
	"flag"
	"fmt"
	"os"
	"os/exec"
	"path/filepath"
	"runtime"
	"runtime/debug"
	"sort"
	"strings"
	"time"

	"verif.local/simrt"
)

// Bounds are the per-tier size limits.
type Bounds struct {
	MaxC, MaxK, MaxOps, MaxOut, MaxG, MaxM, MaxSteps int
	HugeOneIn                                        int // one run in so many uses a huge shape (64 Ki .. 1 Mi samples)
	MarathonOneIn                                    int // one C10 run in so many is a marathon (about 1e5 operations on a tiny shape)
	LongOneIn                                        int // one C11 run in so many is long (hundreds of cycles per task, many tasks)
	MediumOneIn                                      int // one run in so many uses a medium shape (128 .. 64 Ki samples, sizes around powers of two)
}

var tiers = map[string]Bounds{
	"quick":    {MaxC: 16, MaxK: 64, MaxOps: 300, MaxOut: 6, MaxG: 8, MaxM: 6, MaxSteps: 6000, HugeOneIn: 2500, MarathonOneIn: 12000, LongOneIn: 1500, MediumOneIn: 160},
	"thorough": {MaxC: 64, MaxK: 4096, MaxOps: 400, MaxOut: 16, MaxG: 64, MaxM: 10, MaxSteps: 50000, HugeOneIn: 400, MarathonOneIn: 1500, LongOneIn: 300, MediumOneIn: 60},
}

// runCtx is everything one run needs.
type runCtx struct {
	prop       string
	lane       string
	b          Bounds
	prog       *simrt.Stream
	sim        *simrt.Sim
	cfg        string
	ops        int
	nontrivial bool
	probes     *[numProbes]int64
	extraTrace []string // rendered trace of a reference execution (C19)
	tally      func(dim, val string)
}

type startLine struct {
	T   string `json:"t"`
	Run uint64 `json:"run"`
}

type doneLine struct {
	T          string      `json:"t"`
	Run        uint64      `json:"run"`
	Cfg        string      `json:"cfg"`
	Sig        string      `json:"sig"`
	Steps      int64       `json:"steps"`
	Ops        int         `json:"ops"`
	Nontrivial bool        `json:"nontrivial"`
	Overrun    bool        `json:"overrun,omitempty"`
	Viol       *Violation  `json:"violation,omitempty"`
	Tape       *simrt.Tape `json:"tape,omitempty"`
	Trace      []string    `json:"trace,omitempty"`
}

type summaryLine struct {
	T         string                      `json:"t"`
	Runs      int                         `json:"runs"`
	Counters  map[string]int64            `json:"counters"`
	Probes    map[string]int64            `json:"probes"`
	Tallies   map[string]map[string]int64 `json:"tallies"`
	Pairs     []string                    `json:"switch_pairs"`
	Race      bool                        `json:"race_build"`
	Executed  []int                       `json:"points_executed"`
	Preempted []int                       `json:"points_preempted"`
}

type replayFile struct {
	Property string     `json:"property"`
	Tier     string     `json:"tier"`
	Lane     string     `json:"lane"`
	Seed     uint64     `json:"seed"`
	Run      uint64     `json:"run_index"`
	Tape     simrt.Tape `json:"tape"`
}

func main() {
	prop := flag.String("prop", "", "property id: C10, C11, C19")
	tier := flag.String("tier", "quick", "quick|thorough")
	lane := flag.String("lane", "stub", "stub|real (real = passthrough to a real sync.Pool, C10 only)")
	seed := flag.Uint64("seed", 1, "base seed")
	from := flag.Uint64("from", 0, "first run index")
	to := flag.Uint64("to", 1, "one past the last run index")
	replay := flag.String("replay", "", "replay file (JSON with a tape); executes exactly that run")
	trace := flag.Bool("trace", false, "record and print a human-readable trace")
	sample := flag.Int("sample", 0, "emit the trace of the first N runs")
	stopAt := flag.Int64("stopat", 0, "unix time after which no further run is started (the driver's wall-clock budget)")
	traceRun := flag.Int64("tracerun", -1, "record the trace of this run index")
	child := flag.Bool("child", false, "internal: one isolated run on behalf of a parent worker")
	isolateAll := flag.Bool("isolate", false, "run every run in a process of its own (at most 64 runs of the range): used when goroutines or state the library keeps at package level make runs in one process depend on each other")
	flag.Parse()
	_ = child

	b, ok := tiers[*tier]
	if !ok || (*prop != "C10" && *prop != "C11" && *prop != "C19") {
		fmt.Fprintln(os.Stderr, "INFRA: bad -prop or -tier")
		os.Exit(2)
	}
	if *lane == "real" {
		// One goroutine on one P with the collector under our control: the
		// real sync.Pool is then deterministic.
		runtime.GOMAXPROCS(1)
		debug.SetGCPercent(-1)
		// Safety valve, never reached on the pinned tree: with the collector
		// off a modified library that allocates per operation could exhaust
		// the machine in a marathon run. Near the limit the runtime collects
		// after all (the real pool then loses its contents at a moment the
		// tape did not choose; nothing else depends on it).
		debug.SetMemoryLimit(4 << 30)
	}
	go func() {
		// A process that makes no scheduler step for three minutes hangs (a
		// library call outside any simulated task that blocks, a harness bug):
		// infrastructure failure, never a violation.
		last, idle := int64(-1), 0
		for {
			time.Sleep(10 * time.Second)
			if h := simrt.Heartbeat.Load(); h != last {
				last, idle = h, 0
			} else if idle++; idle >= 30 {
				fmt.Fprintln(os.Stderr, "INFRA: worker made no scheduler step for 300 s")
				os.Exit(2)
			}
		}
	}()
	out := bufio.NewWriterSize(os.Stdout, 1<<16)
	defer out.Flush()
	emit := func(v any) {
		data, err := json.Marshal(v)
		if err != nil {
			fmt.Fprintln(os.Stderr, "INFRA: marshal:", err)
			os.Exit(2)
		}
		out.Write(data)
		out.WriteByte('\n')
	}

	var pointNames []string
	if data, err := os.ReadFile(filepath.Join(filepath.Dir(os.Args[0]), "points.json")); err == nil {
		json.Unmarshal(data, &pointNames)
	}
	var executed, preempted []bool
	var counters [simrt.NumCounters]int64
	var probes [numProbes]int64
	var pairs [simrt.MaxSites][simrt.MaxSites]bool
	tallies := map[string]map[string]int64{}
	tally := func(dim, val string) {
		m := tallies[dim]
		if m == nil {
			m = map[string]int64{}
			tallies[dim] = m
		}
		m[val]++
	}

	orphans := 0
	runOne := func(run uint64, tape *simrt.Tape, tracing bool) (viol *Violation) {
		emit(startLine{"start", run})
		out.Flush() // a race report kills the process: the driver must know which run
		var prog, sched *simrt.Stream
		if tape != nil {
			prog, sched = simrt.NewReplayStream(tape.Program), simrt.NewReplayStream(tape.Schedule)
		} else {
			prog, sched = simrt.NewRecordStream(*seed, run, 0), simrt.NewRecordStream(*seed, run, 1)
		}
		sim := simrt.NewSim(sched)
		sim.Tracing = tracing
		sim.Passthrough = *lane == "real"
		sim.MaxSteps = b.MaxSteps
		sim.SiteNames = siteNames[:]
		sim.PointNames = pointNames
		rc := &runCtx{prop: *prop, lane: *lane, b: b, prog: prog, sim: sim, probes: &probes, tally: tally}
		racesBefore := simrt.RaceErrors()
		simrt.FatalHook = func(msg string) {
			// The run cannot be completed (e.g. a lock left held by an operation
			// that panicked). If the race detector already reported races in
			// this run, that is the finding, not an infrastructure failure.
			if n := simrt.RaceErrors() - racesBefore; n > 0 {
				emit(doneLine{T: "done", Run: run, Cfg: rc.cfg, Sig: fmt.Sprintf("%016x", sim.Sig),
					Viol: &Violation{Class: "data-race", Detail: fmt.Sprintf("the race detector reported %d data race(s) between simulated tasks in this run; afterwards the run could not be completed: %s", n, msg)},
					Tape: &simrt.Tape{Program: prog.Out(), Schedule: sched.Out(), ProgramSpans: prog.Spans()}})
				out.Flush()
				os.Exit(0)
			}
			out.Flush()
		}
		simrt.Begin(sim)
		r := elemTypes[prog.Draw(len(elemTypes))]
		tally("type", r.Name())
		switch *prop {
		case "C10":
			viol = r.C10(rc)
		case "C11":
			viol = r.C11(rc)
		case "C19":
			viol = r.C19(rc)
		}
		simrt.End()
		viol.render()
		orphans = sim.Orphans()
		if n := simrt.RaceErrors() - racesBefore; n > 0 {
			// The report text is on stderr; the driver attaches it.
			rv := &Violation{Class: "data-race", Detail: fmt.Sprintf("the race detector reported %d data race(s) between simulated tasks in this run", n)}
			if viol != nil {
				rv.Detail += "; additionally [" + viol.Class + "] " + viol.Detail
			}
			viol = rv
		}
		if sim.LibPanicked && viol != nil && viol.Class != "data-race" {
			viol = nil // what the abandoned tasks had recorded is not a verdict
		}
		if sim.Deadlocked != "" && viol == nil && !sim.LibPanicked {
			out.Flush()
			fmt.Fprintln(os.Stderr, sim.Deadlocked)
			if os.Getenv("VERIF_DEBUG_DEADLOCK") != "" { // development aid: the end of the trace
				tr := sim.RenderTrace()
				if len(tr) > 120 {
					tr = tr[len(tr)-120:]
				}
				for _, l := range tr {
					fmt.Fprintln(os.Stderr, "  |", l)
				}
			}
			os.Exit(2)
		}
		for i := range counters {
			counters[i] += sim.Counters[i]
		}
		executed, preempted = orBits(executed, sim.Executed), orBits(preempted, sim.Preempted)
		for i := range pairs {
			for j := range pairs[i] {
				if sim.SwitchPairs[i][j] {
					pairs[i][j] = true
				}
			}
		}
		d := doneLine{T: "done", Run: run, Cfg: r.Name() + " " + rc.cfg, Sig: fmt.Sprintf("%016x", sim.Sig),
			Steps: sim.Counters[simrt.CtSteps], Ops: rc.ops, Nontrivial: rc.nontrivial, Overrun: sim.Overrun, Viol: viol}
		if viol != nil || tape != nil {
			d.Tape = &simrt.Tape{Program: prog.Out(), Schedule: sched.Out(), ProgramSpans: prog.Spans()}
		}
		if tracing && !sim.LibPanicked {
			// (a cut-short run leaves tasks behind that were never joined: the
			// arguments of their trace lines must not be read)
			d.Trace = append(rc.extraTrace, sim.RenderTrace()...)
		}
		emit(d)
		return viol
	}

	nruns := 0
	if *replay != "" {
		data, err := os.ReadFile(*replay)
		if err != nil {
			fmt.Fprintln(os.Stderr, "INFRA: read replay:", err)
			os.Exit(2)
		}
		var rf replayFile
		if err := json.Unmarshal(data, &rf); err != nil {
			fmt.Fprintln(os.Stderr, "INFRA: parse replay:", err)
			os.Exit(2)
		}
		runOne(rf.Run, &rf.Tape, *trace)
		nruns = 1
	} else {
		isolate := *isolateAll
		for run := *from; run < *to; run++ {
			if isolate && nruns >= 64 {
				break
			}
			if *stopAt > 0 && nruns > 0 && time.Now().Unix() >= *stopAt {
				break // out of budget: the summary says how many runs were executed
			}
			tracing := *trace || int(run-*from) < *sample || int64(run) == *traceRun
			if isolate {
				// The library keeps goroutines alive across runs (package-level
				// state): every further run gets a process of its own, so that
				// each run still is a pure function of its tape.
				out.Flush()
				viol := runIsolated(run, tracing, *prop, *tier, *lane, *seed, out, &counters, &probes, &pairs, tallies)
				nruns++
				if viol {
					break
				}
				continue
			}
			v := runOne(run, nil, tracing)
			nruns++
			if v != nil {
				break // the driver decides what happens next
			}
			simrt.EarlierOrphans += orphans
		}
	}

	s := summaryLine{T: "summary", Runs: nruns, Counters: map[string]int64{}, Probes: map[string]int64{},
		Tallies: tallies, Race: simrt.RaceEnabled}
	for i, n := range simrt.CounterNames {
		s.Counters[n] = counters[i]
	}
	for i, n := range probeNames {
		if probeProp[i] == *prop {
			s.Probes[n] = probes[i]
		}
	}
	for i := range pairs {
		for j := range pairs[i] {
			if pairs[i][j] {
				s.Pairs = append(s.Pairs, siteName(i)+">"+siteName(j))
			}
		}
	}
	sort.Strings(s.Pairs)
	s.Executed, s.Preempted = bitList(executed), bitList(preempted)
	emit(s)
}

func siteName(i int) string {
	switch {
	case i == simrt.MaxSites-2:
		return "start"
	case i == simrt.MaxSites-1:
		return "done"
	case i < len(siteNames):
		return siteNames[i]
	}
	return "?"
}

// runIsolated executes one run in a child process and merges its output.
func runIsolated(run uint64, tracing bool, prop, tier, lane string, seed uint64, out *bufio.Writer,
	counters *[simrt.NumCounters]int64, probes *[numProbes]int64, pairs *[simrt.MaxSites][simrt.MaxSites]bool,
	tallies map[string]map[string]int64) (violation bool) {
	args := []string{"-child", "-prop", prop, "-tier", tier, "-lane", lane, "-seed", fmt.Sprint(seed),
		"-from", fmt.Sprint(run), "-to", fmt.Sprint(run + 1)}
	if tracing {
		args = append(args, "-trace")
	}
	cmd := exec.Command(os.Args[0], args...)
	cmd.Stderr = os.Stderr
	data, err := cmd.Output()
	if err != nil {
		if ee, ok := err.(*exec.ExitError); !ok || (ee.ExitCode() != 66) {
			fmt.Fprintf(os.Stderr, "INFRA: isolated run %d failed: %v\n", run, err)
			out.Flush()
			os.Exit(2)
		}
	}
	for _, l := range bytes.Split(data, []byte("\n")) {
		if len(l) == 0 {
			continue
		}
		var probe struct {
			T        string                      `json:"t"`
			Viol     *json.RawMessage            `json:"violation"`
			Counters map[string]int64            `json:"counters"`
			Probes   map[string]int64            `json:"probes"`
			Tallies  map[string]map[string]int64 `json:"tallies"`
			Pairs    []string                    `json:"switch_pairs"`
		}
		if json.Unmarshal(l, &probe) != nil {
			continue
		}
		switch probe.T {
		case "start":
			out.Write(l)
			out.WriteByte('\n')
		case "done":
			out.Write(l)
			out.WriteByte('\n')
			if probe.Viol != nil {
				violation = true
			}
		case "summary":
			for i, n := range simrt.CounterNames {
				counters[i] += probe.Counters[n]
			}
			for i, n := range probeNames {
				probes[i] += probe.Probes[n]
			}
			for dim, m := range probe.Tallies {
				if tallies[dim] == nil {
					tallies[dim] = map[string]int64{}
				}
				for k, v := range m {
					tallies[dim][k] += v
				}
			}
			for _, p := range probe.Pairs {
				a, b, _ := strings.Cut(p, ">")
				if i, j := siteIndex(a), siteIndex(b); i >= 0 && j >= 0 {
					pairs[i][j] = true
				}
			}
		}
	}
	return violation
}

func siteIndex(name string) int {
	for i := 0; i < simrt.MaxSites; i++ {
		if siteName(i) == name {
			return i
		}
	}
	return -1
}

func orBits(a, b []bool) []bool {
	if len(b) > len(a) {
		a = append(a, make([]bool, len(b)-len(a))...)
	}
	for i, v := range b {
		if v {
			a[i] = true
		}
	}
	return a
}

func bitList(a []bool) []int {
	var l []int
	for i, v := range a {
		if v {
			l = append(l, i)
		}
	}
	return l
}
